"""Canonical forms and the field-wise IR comparator.

``compare`` never returns a boolean: it returns a list of *atomic discrepancies*, flat
dicts that carry the generator-level features of the parameter they concern, so that the
known-findings classifier (findings.py) can match on mechanism rather than on values.

Leniency lives only in the per-kind ``Table`` classes (what a representation kind cannot
express / documents as a normalisation).  Everything else is an exact comparison.
"""
import ast
import re

NONE_SPELLINGS = (None, "```(None)```", "```None```")  # the plain string "None" is a string, not the None marker

ZERO = {"int": 0, "float": 0.0, "complex": 0j, "str": "", "bool": False}


# --------------------------------------------------------------------------- defaults
class _Absent:
    def __repr__(self):
        return "<absent>"


ABSENT = _Absent()


def is_code_quoted(v):
    return isinstance(v, str) and len(v) > 6 and v.startswith("```") and v.endswith("```")


def _strip_parens_dump(src):
    try:
        return ast.dump(ast.parse(src.strip(), mode="eval").body)
    except SyntaxError:
        return "unparseable:" + src


def canon_default(v):
    """Canonical, hashable form of an IR default.

    * the spellings of "no value" are one value;
    * back-tick quoted code is compared as code (paren wrapping neutral);
    * everything else by (python type name, value): -5 != -5.0, True != 1, "3" != 3.
    """
    if v is ABSENT:
        return ("absent",)
    try:
        if v in NONE_SPELLINGS:
            return ("none",)
    except TypeError:
        pass
    if is_code_quoted(v):
        inner = v[3:-3]
        if inner.strip() in ("None", "(None)"):
            return ("none",)
        return ("code", _strip_parens_dump(inner))
    if isinstance(v, ast.AST):
        return ("ast", ast.dump(v))
    if isinstance(v, (list, tuple, dict, set)):
        return ("pyobj", type(v).__name__, repr(v))
    return (type(v).__name__, v)


def default_class_of(v):
    c = canon_default(v)
    return c[0]


def describe_default_change(exp, obs):
    """A short mechanism tag for a default discrepancy."""
    ce, co = canon_default(exp), canon_default(obs)
    if ce[0] == "absent":
        return "invented:" + co[0]
    if co[0] == "absent":
        return "lost:" + ce[0]
    if ce[0] != co[0]:
        # code -> str of the same characters = quoting lost
        if ce[0] == "code" and co[0] == "str":
            if _strip_parens_dump(str(obs)) == ce[1]:
                return "quote_lost"
            return "code->str:changed"
        if ce[0] == "str" and co[0] == "code":
            return "str->code"
        return "type:{}->{}".format(ce[0], co[0])
    if ce[0] == "str":
        e, o = exp, obs
        if isinstance(e, str) and isinstance(o, str):
            if e.startswith(o) and len(o) < len(e):
                return "str_truncated"
            if o.strip("'\"") == e:
                return "str_extra_quotes"
            if e.strip("'\"") == o:
                return "str_quotes_lost"
    return "value:" + ce[0]


# --------------------------------------------------------------------------- types
def canon_typ(t):
    if t is None or t is ABSENT:
        return None
    s = " ".join(str(t).split())
    try:
        return ast.dump(ast.parse(s, mode="eval").body)
    except SyntaxError:
        return "raw:" + s


# --------------------------------------------------------------------------- prose
_DEFAULT_RE = re.compile(r"\s*(defaults to|default value is|default:)\s*", re.I)


def split_default_sentence(doc):
    """The harness's own splitter (NOT doctrans.extract_default): returns
    (prose before the last announcement, announcement text or None)."""
    if doc is None:
        return None, None
    last = None
    for m in _DEFAULT_RE.finditer(doc):
        last = m
    if last is None:
        return doc, None
    return doc[: last.start()], doc[last.end():]


def ws(s):
    return None if s is None else " ".join(s.split())


def prose_equal(expected, observed, wrap=False, allow_stop=True):
    """Returns (equal, tag)."""
    if expected is None and observed is None:
        return True, ""
    if expected is None:
        return False, "invented"
    if observed is None:
        return False, "lost"
    e, o = expected, observed
    if wrap:
        e, o = ws(e), ws(o)
    else:
        e, o = e.rstrip(), o.rstrip()
    if e == o:
        return True, ""
    if allow_stop and o == e + "." and not e.endswith((".", ",")):
        return True, "stop_added"
    if ws(e) == ws(o):
        return False, "whitespace"
    if o.startswith(e):
        return False, "suffix_added"
    if e.startswith(o):
        return False, "truncated"
    return False, "changed"


TAG_RE = re.compile(r"zq_[A-Za-z0-9_]+")


def tags_in(s):
    return set(TAG_RE.findall(s or ""))


def return_default_equivalents(d):
    """The default of a return entry is the returned EXPRESSION: its source text ('5', "'mnist'") and the value that
    text denotes (5, 'mnist') are the same expression."""
    c = canon_default(d)
    acc = [c]
    if c[0] == "str":
        try:
            v = ast.literal_eval(d)
        except (ValueError, SyntaxError):
            v = None
        if isinstance(v, (int, float, bool, str)) and v is not None:
            acc.append(canon_default(v))
    return acc


# --------------------------------------------------------------------------- tables
class Table:
    """Expressibility table of a representation kind.  Default: everything must survive
    exactly.  Sub-classes widen *only* what the kind documents it cannot express."""

    kind = "exact"
    wrap = False  # prose compared modulo whitespace runs
    compare_defaults = True
    compare_summary = True
    compare_return = True
    summary_wrap = False
    sentence_stripped_on_parse = False  # the parser of this kind never leaves "Defaults to X" in the prose it returns

    def accept_default(self, name, p, pf):
        """List of acceptable canonical defaults for expected param dict `p`."""
        return [canon_default(p.get("default", ABSENT))]

    def accept_typ(self, name, p, pf):
        return [canon_typ(p.get("typ"))]

    def accept_doc(self, name, p, pf):
        return [p.get("doc")]

    def accept_return_default(self, p, pf):
        return return_default_equivalents(p.get("default", ABSENT))

    def accept_return_typ(self, p, pf):
        return [canon_typ(p.get("typ"))]

    def accept_return_doc(self, p, pf):
        return [p.get("doc")]

    def expected_names(self, ir, feat):
        return list(ir["params"].keys())

    def return_expected(self, ir, feat):
        r = ir.get("returns")
        return None if not r else r.get("return_type")


def _mk(base, pf, **kw):
    d = dict(base)
    if pf:
        d.update(
            typ_class=pf.get("typ_class"),
            default_class=pf.get("default_class"),
            doc_class=pf.get("doc_class"),
            doc_states_default=bool(pf.get("doc_states_default")),
            param_kind=pf.get("kind"),
            after_defaulted=pf.get("after_defaulted"),
            idx=pf.get("idx"),
        )
    d.update(kw)
    return d


def _short(v, n=600):
    s = repr(v)
    return s if len(s) <= n else s[: n - 3] + "..."


def compare(expected, observed, feat, table, base=None):
    """Field-wise comparison.  `base` = flat dict of case-level features copied into
    every discrepancy (op, style, options ...)."""
    base = dict(base or {})
    base.setdefault("n_params", feat["n_params"])
    base.setdefault("has_kwargs", feat["kwargs"])
    base.setdefault("has_return", feat["has_return"])
    from .gen_ir import case_flags

    for k, v in case_flags(feat).items():
        base.setdefault(k, v)
    out = []
    # ---- summary
    if table.compare_summary:
        e, o = expected.get("doc") or "", observed.get("doc") or ""
        within = getattr(table, "summary_exact_within", None)
        if table.summary_wrap and within and all(len(line) <= within for line in e.splitlines()):
            # nothing needed wrapping: the line breaks stay where they were (indentation of the lines is layout)
            same = [ws(line) for line in e.strip().splitlines()] == [ws(line) for line in o.strip().splitlines()]
        elif table.summary_wrap:
            same = ws(e) == ws(o)
        else:
            same = e.strip() == o.strip()
        if not same:
            out.append(
                _mk(base, None, field="summary", tag="changed" if o else "lost",
                    summary_class=feat["summary_class"], expected=_short(e), observed=_short(o))
            )
    # ---- names and order
    exp_names = table.expected_names(expected, feat)
    obs_params = observed.get("params") or {}
    obs_names = list(obs_params.keys())
    for n in exp_names:
        if n not in obs_params:
            out.append(_mk(base, feat["params"].get(n), field="param", tag="missing", param=n,
                           expected=_short(expected["params"][n]), observed=_short(obs_names)))
    for n in obs_names:
        if n not in exp_names:
            out.append(_mk(base, None, field="param", tag="extra", param=n, param_kind="unknown",
                           expected=_short(exp_names), observed=_short(obs_params[n])))
    common_e = [n for n in exp_names if n in obs_params]
    common_o = [n for n in obs_names if n in exp_names]
    if common_e != common_o:
        # attribute the reordering to the first parameter out of place
        first = next(a for a, b in zip(common_e, common_o) if a != b)
        moved = [n for n in common_e if common_e.index(n) != common_o.index(n)]
        out.append(_mk(base, feat["params"].get(first), field="order", tag="reordered", param=first,
                       moved_doc_classes=sorted({feat["params"][m]["doc_class"] for m in moved if m in feat["params"]}),
                       expected=_short(common_e), observed=_short(common_o)))
    all_tags = {}
    for n in exp_names:
        for t in tags_in(expected["params"][n].get("doc")):
            all_tags[t] = n
    # ---- per-parameter fields
    for n in common_e:
        ep, op, pf = expected["params"][n], obs_params[n], feat["params"].get(n)
        out.extend(_compare_entry(base, n, ep, op, pf, table, all_tags, is_return=False))
    # ---- return entry
    if table.compare_return:
        er = table.return_expected(expected, feat)
        orr = (observed.get("returns") or {}).get("return_type") if observed.get("returns") else None
        if er and not orr:
            out.append(_mk(base, feat["ret"], field="return", tag="lost",
                           expected=_short(er), observed=_short(observed.get("returns"))))
        elif orr and not er:
            # an empty dict is "no return entry"
            if any(v not in (None, "") for v in orr.values()):
                out.append(_mk(base, {"kind": "return"}, field="return", tag="invented",
                               expected=None, observed=_short(orr)))
        elif er and orr:
            out.extend(_compare_entry(base, "return_type", er, orr, feat["ret"], table, all_tags, is_return=True))
    return out


def _compare_entry(base, n, ep, op, pf, table, all_tags, is_return):
    out = []
    # typ
    acc_t = (table.accept_return_typ if is_return else lambda p, f: table.accept_typ(n, p, f))(ep, pf)
    ot = canon_typ(op.get("typ"))
    if ot not in acc_t:
        et = ep.get("typ")
        tag = "lost" if ot is None else ("invented" if et is None else "changed")
        out.append(_mk(base, pf, field="typ", tag=tag, param=n,
                       expected=_short(et), observed=_short(op.get("typ"))))
    # default
    if table.compare_defaults:
        acc_d = (table.accept_return_default if is_return else lambda p, f: table.accept_default(n, p, f))(ep, pf)
        od = canon_default(op.get("default", ABSENT))
        if od not in acc_d:
            out.append(_mk(base, pf, field="default",
                           tag=describe_default_change(ep.get("default", ABSENT), op.get("default", ABSENT)),
                           param=n, expected=_short(ep.get("default", ABSENT)),
                           observed=_short(op.get("default", ABSENT))))
    # doc
    acc_p = (table.accept_return_doc if is_return else lambda p, f: table.accept_doc(n, p, f))(ep, pf)
    odoc = op.get("doc")
    odoc_prose, _ann = split_default_sentence(odoc) if odoc else (odoc, None)
    if odoc_prose is not None and not odoc_prose.strip():
        odoc_prose = None
    ok, tag = False, "changed"
    for cand in acc_p:
        cand_prose = split_default_sentence(cand)[0] if cand else cand
        ok, tag = prose_equal(cand_prose if cand_prose else None, odoc_prose, wrap=table.wrap)
        if ok:
            break
    if ok and table.sentence_stripped_on_parse and _ann is not None and split_default_sentence(ep.get("doc"))[1] is None:
        # this kind's parser hands the default over as a value and removes its sentence from the prose
        out.append(_mk(base, pf, field="doc", tag="default_sentence_left_in_prose", param=n,
                       expected=_short(ep.get("doc")), observed=_short(odoc)))
    if not ok:
        # tag movement is the strongest evidence: say so explicitly
        mine = tags_in(ep.get("doc"))
        seen = tags_in(odoc)
        foreign = {t for t in seen - mine if t in all_tags}
        if foreign:
            tag = "foreign_tag"
        elif mine and not (mine & seen) and odoc:
            tag = "tag_lost"
        out.append(_mk(base, pf, field="doc", tag=tag, param=n,
                       expected=_short(ep.get("doc")), observed=_short(odoc)))
    return out
