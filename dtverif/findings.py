"""Known-findings classifier.

`/verif/known_findings.json` is committed and read-only at run time.  A finding is keyed
by *mechanism*: a predicate (`match`) over the flat feature/symptom dict of an atomic
discrepancy.  A discrepancy is suppressed only when every key of `match` is satisfied;
anything else -- a different symptom on the same input, the same symptom outside the
predicate -- stays a violation.

Predicate language (value of a key in `match`):
    scalar            equality
    [a, b, ...]       membership
    {"re": "..."}     regular expression search on str(value)
    {"not": X}        negation of predicate X
    {"prefix": "..."} str(value).startswith
    {"any": true}     key present with a non-None value
"""
import json
import os
import re

from .env import ROOT

PATH = os.path.join(ROOT, "known_findings.json")


def _sat(pred, val):
    if isinstance(pred, dict):
        if "re" in pred:
            return val is not None and re.search(pred["re"], str(val)) is not None
        if "not" in pred:
            return not _sat(pred["not"], val)
        if "prefix" in pred:
            return val is not None and str(val).startswith(pred["prefix"])
        if "any" in pred:
            return (val is not None) == bool(pred["any"])
        if "any_re" in pred:
            try:
                return any(re.search(pred["any_re"], str(x)) for x in (val or ()))
            except TypeError:
                return False
        if "contains" in pred:
            try:
                return pred["contains"] in val
            except TypeError:
                return False
        raise ValueError("bad predicate {!r}".format(pred))
    if isinstance(pred, list):
        return any(_sat(p, val) for p in pred)
    return pred == val


def _match(m, disc):
    for k, p in m.items():
        if k == "$or":
            if not any(_match(sub, disc) for sub in p):
                return False
        elif not _sat(p, disc.get(k)):
            return False
    return True


class Findings:
    def __init__(self, path=PATH):
        self.path = path
        data = {"findings": [], "fixed": []}
        if os.path.exists(path):
            with open(path) as f:
                data = json.load(f)
        self.findings = data.get("findings", [])
        self.fixed = data.get("fixed", [])

    def for_property(self, prop):
        """Findings consulted when classifying a discrepancy of `prop`: those listed under
        it (`properties`: the finding has been witnessed by that property's check) and those
        whose mechanism can also surface there (`also_matches_in`: same predicate, not (yet)
        witnessed by that check's workloads)."""
        return [f for f in self.findings if prop in f.get("properties", []) or prop in f.get("also_matches_in", [])]

    def listed_under(self, prop):
        return [f for f in self.findings if prop in f.get("properties", [])]

    def classify(self, prop, disc):
        """Returns the id of the first matching known finding, or None."""
        for f in self.for_property(prop):
            if _match(f["match"], disc):
                return f["id"]
        return None

    def get(self, fid):
        for f in self.findings:
            if f["id"] == fid:
                return f
        return None
