"""Start `doctrans.__main__.main` in this interpreter the way the repository's own test-suite
reaches it: after the first (failing) import of the third-party `meta` wheel has been
absorbed (see DESIGN 2.8).  Usage: python -m dtverif.cli_launcher <doctrans argv...>

Environment (fault injection for C20, all optional):
  DTVERIF_FAIL_OPEN_K / DTVERIF_FAIL_MODE / DTVERIF_FAIL_CRASH / DTVERIF_FAIL_ROOT
  DTVERIF_FAIL_EMIT_J   raise InjectedFault at the j-th emitter call
"""
import os
import sys


def main():
    from dtverif import env

    env.boot()
    import doctrans.__main__ as m

    k = os.environ.get("DTVERIF_FAIL_OPEN_K")
    j = os.environ.get("DTVERIF_FAIL_EMIT_J")
    if k is not None or os.environ.get("DTVERIF_COUNT_OPENS"):
        from dtverif.monitors import FailOpen, bind_open
        import doctrans.conformance
        import doctrans.emit
        import doctrans.gen
        import doctrans.sync_properties

        fo = FailOpen(k=int(k) if k is not None else None, mode=os.environ.get("DTVERIF_FAIL_MODE"),
                      crash=os.environ.get("DTVERIF_FAIL_CRASH") == "1", root=os.environ.get("DTVERIF_FAIL_ROOT"))
        import shutil as _shutil

        bind_open(fo, [doctrans.emit, doctrans.gen, doctrans.conformance, doctrans.sync_properties, _shutil])
    if j is not None:
        from dtverif.faults import fail_emitters

        fail_emitters(int(j))
    sys.argv = ["python -m doctrans"] + sys.argv[1:]
    m.main()


if __name__ == "__main__":
    main()
