#!/venv/bin/python
"""Re-balance known_findings.json from tools/witnessed.json: a finding stays listed under a
property (`properties`) only if that property's check has witnessed it in the recorded sweeps;
the other properties it could surface in move to `also_matches_in` (still consulted by the
classifier, so a rare witness there is not a new violation, but not claimed as a finding of
that property).  Never run by a check; a maintenance tool."""
import json
kf = json.load(open('/verif/known_findings.json'))
w = json.load(open('/verif/tools/witnessed.json'))
moved = 0
for f in kf['findings']:
    allp = list(dict.fromkeys(f.get('properties', []) + f.get('also_matches_in', [])))
    seen = [p for p in allp if f['id'] in w.get(p, {})]
    rest = [p for p in allp if p not in seen]
    if not seen:
        print("never witnessed anywhere:", f['id'], allp)
        seen, rest = allp[:1], allp[1:]
    moved += len(set(f.get('properties', [])) - set(seen))
    f['properties'] = seen
    if rest:
        f['also_matches_in'] = rest
    else:
        f.pop('also_matches_in', None)
json.dump(kf, open('/verif/known_findings.json', 'w'), indent=1)
print("moved", moved)
