#!/bin/bash
# usage: run_all.sh [tier] [seed]   -- runs every claimed check, prints one line each
tier=${1:-quick}; seed=${2:-0}
cd "$(dirname "$0")/.."
for c in C01 C02 C03 C04 C05 C06 C07 C08 C09 C10 C11 C12 C13 C14 C15 C16 C17 C18 C19 C20; do
  out=$(VERIF_SEED=$seed /venv/bin/python -m dtverif.run $c --tier $tier 2>&1); rc=$?
  echo "$c rc=$rc $(echo "$out" | grep -E '^SUMMARY' | cut -c1-200)"
  if [ $rc -ne 0 ]; then echo "$out" | grep -E '^VIOLATION|^INCONCL|what:' | cut -c1-400 | head -6; fi
done
