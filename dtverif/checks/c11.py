"""C11 -- sync preserves everything it was not asked to change.

E: ast of each target file before and after, with the named definition masked by the
   INDEPENDENT resolver.
O: the sequences of other top-level statements, and of sibling members of the enclosing
   class for method targets, are ast.dump-identical and in the same order; the module
   docstring is unchanged modulo re-indentation; the file parses; marker statements inside
   an existing function target survive.  Appends never glue onto an unterminated last line.
"""
import ast
import os
import shutil
import tempfile

from ..refmodels import resolve
from ..syncsim import DEF_NAME, KINDS, PRESTATES, make_project, run_api, run_cli

PROPERTY = "C11"
LEVEL = "exploration"
SHARDS = {"quick": 6, "thorough": 16}
TIMEOUT = {"quick": 900, "thorough": 3400}
OP = "sync_preservation"
RULE = (
    "generated target modules with the named definition placed before / between / after other statements (imports, "
    "constants, annotated assignments, helper functions sharing parameter names with the target, classes with same-named "
    "methods, nested classes, __main__ block), with and without trailing newline, for every target kind and pre-state "
    "(cycled) and method targets with sibling members; file endings none/space/tab/unterminated blank line/two "
    "newlines; a third of the API cases run a second sync in the same process after a hand edit of every target and "
    "a changed truth; one evaluation = one sync run + masked-AST comparison of every "
    "target file that existed before; non-trivial = the file had at least one other statement; distinct = distinct "
    "(truth, pre-states, method, statement kinds around the target)"
)
ASSUMPTIONS = [
    "the independent resolver decides which node is 'the named definition' (masked)",
    "module/class docstrings are compared with ast.get_docstring(clean=True) (re-indent on read is whitespace-only)",
    "held = held on the executions observed",
]
ANCHORS = [
    ("doctrans/conformance.py", "_conform_filename"),
    ("doctrans/ast_utils.py", "RewriteAtQuery.generic_visit"),
    ("doctrans/ast_utils.py", "annotate_ancestry"),
    ("doctrans/source_transformer.py", "ast_parse"),
    ("doctrans/emit.py", "file"),
]


def others(tree, dotted, simple):
    """(list of ast.dump of the other top-level statements, sibling dumps for method targets, docstring)"""
    path = dotted.split(".")
    node, parent, _ = resolve(path, tree)
    top = []
    for st in tree.body:
        if st is node:
            continue
        if len(path) > 1 and isinstance(st, ast.ClassDef) and st.name == path[0]:
            continue  # compared member-wise below
        top.append(st)
    sib = []
    if len(path) > 1:
        cls = next((s for s in tree.body if isinstance(s, ast.ClassDef) and s.name == path[0]), None)
        if cls is not None:
            sib = [s for s in cls.body if s is not node]
    return top, sib, ast.get_docstring(tree, clean=True)


def _dumps(nodes, drop_docstring=True):
    out = []
    for i, n in enumerate(nodes):
        if drop_docstring and i == 0 and isinstance(n, ast.Expr) and isinstance(getattr(n, "value", None), ast.Constant) and isinstance(n.value.value, str):
            continue
        out.append(ast.dump(_norm(n)))
    return out


def _norm(n):
    from .c06 import _norm_docstrings
    import copy

    return _norm_docstrings(copy.deepcopy(n))


def one(ctx, i, tmproot):
    rng = ctx.case_rng(i)
    root = tempfile.mkdtemp(prefix="s", dir=tmproot)
    try:
        truth = KINDS[i % 3]
        oth = [k for k in KINDS if k != truth]
        pre = {oth[0]: PRESTATES[2 + (i // 3) % 3], oth[1]: PRESTATES[2 + (i // 9) % 3]}  # absent / stale / agreeing
        method = (i // 27) % 2 == 1
        p = make_project(rng, root, truth, pre, method=method, rich=True, tilde_ok=True)
        via = "cli" if i % 11 == 5 else "api"
        before_src = {k: (open(f).read() if os.path.exists(f) else None) for k, f in p.files.items()}
        base = {"op": OP, "truth": truth, "method": method, "via": via, "pre_states": sorted(set(pre.values())),
                "truth_func_before": p.features.get(truth + "_func_before", False),
                "some_file_has_param_named_like_target": p.features.get("some_file_has_param_named_like_target", False)}
        replay = {"case": i, "seed": ctx.seed, "tier": ctx.tier, "pre": pre, "files": before_src}
        def sync_and_judge(before_src, base, replay, phase):
            base = dict(base, phase=phase)
            res = run_api(p) if via == "api" else run_cli(p)
            ctx.event("sync_runs:" + via)
            raised = (via == "api" and res["exc"] is not None) or (via == "cli" and res["rc"] != 0)
            if raised:
                ctx.event("runs_raised")
            for kind, fn in p.files.items():
                if before_src[kind] is None:
                    continue
                tb = dict(base, file_kind=kind, file_pre=p.pre[kind], file_is_truth=kind == truth,
                          file_func_before=p.features.get(kind + "_func_before", False),
                          file_is_method=p.method and kind == "function",
                          file_rebound_after_definition=p.features.get(kind + "_rebound_after_definition", False),
                          no_trailing_newline=p.features.get(kind + "_no_trailing_newline", False),
                          file_ending=p.features.get(kind + "_ending"), run_raised=raised)
                b_tree = ast.parse(before_src[kind])
                b_top, b_sib, b_doc = others(b_tree, p.names[kind], p.def_name[kind])
                ctx.case((truth, tuple(sorted(pre.items())), method, kind, tuple(type(s).__name__ for s in b_top)), nontrivial=bool(b_top or b_sib),
                         sample={"file": os.path.basename(fn), "pre": p.pre[kind], "before": before_src[kind][:500]}, sample_key=(kind, p.pre[kind]))
                ctx.feature("file_pre=" + p.pre[kind])
                ctx.feature("file_ending=" + str(p.features.get(kind + "_ending")))
                after_src = open(fn).read()
                try:
                    a_tree = ast.parse(after_src)
                except SyntaxError as e:
                    ctx.report(dict(tb, field="file", tag="does_not_parse", expected="valid python", observed=str(e)[:100]), dict(replay, after=after_src))
                    continue
                try:
                    compile(after_src, fn, "exec")  # e.g. a duplicated argument name parses but does not compile
                except SyntaxError as e:
                    ctx.report(dict(tb, field="file", tag="does_not_compile", expected="compilable module", observed=str(e)[:100]), dict(replay, after=after_src))
                ctx.event("files_compared")
                a_top, a_sib, a_doc = others(a_tree, p.names[kind], p.def_name[kind])
                # anything appended with the target's simple name is "the definition that was added"
                a_top = [s for s in a_top if not (isinstance(s, (ast.FunctionDef, ast.ClassDef)) and s.name == p.def_name[kind]
                                                  and ast.dump(_norm(s)) not in _dumps(b_top, False))]
                # ... but a definition that existed beforehand is replaced where it stands, not joined by a second one
                if "." not in p.names[kind]:
                    def _count(tree):
                        return sum(1 for s in tree.body if isinstance(s, (ast.FunctionDef, ast.ClassDef)) and s.name == p.def_name[kind])
                    nb, na = _count(b_tree), _count(a_tree)
                    ctx.event("definition_counts_compared")
                    if nb >= 1 and na != nb:
                        ctx.report(dict(tb, field="top_level_statements", tag="definition_duplicated", expected=str(nb), observed=str(na),
                                        param_named_like_target_before=p.features.get(kind + "_param_named_like_target_before", False)),
                                   dict(replay, after=after_src))
                db, da = _dumps(b_top), _dumps(a_top)
                if db != da:
                    tag = "reordered" if sorted(db) == sorted(da) else ("dropped" if len(da) < len(db) else ("added" if len(da) > len(db) else "changed"))
                    first = next((j for j, (x, y) in enumerate(zip(db, da)) if x != y), min(len(db), len(da)))
                    ctx.report(dict(tb, field="top_level_statements", tag=tag,
                                    first_diff=type(b_top[first]).__name__ if first < len(b_top) else "end",
                                    expected=ast.unparse(b_top[first])[:200] if first < len(b_top) else "<end>",
                                    observed=ast.unparse(a_top[first])[:200] if first < len(a_top) else "<end>"), dict(replay, after=after_src))
                if b_sib:
                    sb, sa = _dumps(b_sib), _dumps([s for s in a_sib])
                    if sb != sa:
                        ctx.report(dict(tb, field="class_siblings", tag="changed", expected=str(len(sb)), observed=str(len(sa))), dict(replay, after=after_src))
                    ctx.event("sibling_sets_compared")
                if (b_doc or None) != (a_doc or None):
                    ctx.report(dict(tb, field="module_docstring", tag="changed", expected=repr(b_doc)[:100], observed=repr(a_doc)[:100]), dict(replay, after=after_src))

        sync_and_judge(before_src, base, replay, "first_sync")
        if i % 3 == 0 and via == "api" and not method:
            # the same paths again in the same process: a hand edit in every target, a changed truth, a second sync
            for kind, fn in p.files.items():
                if kind != truth and os.path.exists(fn):
                    with open(fn, "a") as f:
                        f.write("\nZQ_EDITED_BY_HAND_{} = {}\n".format(i, rng.randint(1, 99)))
            from ..syncsim import definition_src
            with open(p.files[truth], "w") as f:
                f.write(definition_src(truth, p.stale_ir, name=p.def_name[truth]) + "\n")
            before2 = {k: (open(f).read() if os.path.exists(f) else None) for k, f in p.files.items()}
            ctx.event("second_syncs_after_hand_edit")
            sync_and_judge(before2, base, dict(replay, second_phase_files=before2), "second_sync_after_hand_edit")
    finally:
        shutil.rmtree(root, ignore_errors=True)


def run(ctx):
    ctx.require("files_compared", 50)
    ctx.require("sibling_sets_compared", 5)
    n = ctx.n(240, 9000)
    tmproot = tempfile.mkdtemp(prefix="dtverif-c11-")
    try:
        for j in range(n):
            one(ctx, j * ctx.shard[1] + ctx.shard[0], tmproot)
    finally:
        shutil.rmtree(tmproot, ignore_errors=True)


def replay(payload):
    from ..runner import Ctx

    rp = payload["replay"]
    ctx = Ctx(PROPERTY, rp.get("tier", "quick"), rp.get("seed", 0))
    tmproot = tempfile.mkdtemp(prefix="dtverif-c11-")
    try:
        one(ctx, rp["case"], tmproot)
    finally:
        shutil.rmtree(tmproot, ignore_errors=True)
    return ctx
