"""C01 -- docstring round-trip fidelity (ReST / numpydoc / Google).

E: emit.docstring(ir, style, ...) -> text ; parse.docstring(text) -> ir'
O: no raise; the scanner dispatched to equals the emitting style (tap on _scan_phase);
   compare(project(ir), ir') has no non-permitted atomic discrepancy.
"""
from ..canon import ABSENT, Table, canon_default, canon_typ, compare
from ..gen_ir import case_flags, IRGen, ir_copy, ir_jsonable, ir_from_jsonable, knobs, shape_signature
from ..monitors import Taps

PROPERTY = "C01"
LEVEL = "exploration"
SHARDS = {"quick": 4, "thorough": 16}
TIMEOUT = {"quick": 600, "thorough": 3000}
RULE = (
    "seeded generator of IRs in the stated domain (gen_ir.IRGen) x style{rest,numpydoc,google} x "
    "emit_default_doc{on,off} x word_wrap{on,off}; one evaluation = one emit.docstring -> parse.docstring "
    "round trip compared field-wise; a case is non-trivial when it has at least one parameter or a return "
    "entry; distinct = distinct shape signature (param count, per-param type class x default class x has-prose, "
    "kwargs, return shape, summary class, style, options)"
)
ASSUMPTIONS = [
    "held = held on the executions observed; IR shapes outside gen_ir's domain are not covered",
    "prose is compared after removing one trailing default sentence with the harness's own splitter; one added "
    "full stop before the default sentence is the documented normalisation",
    "with word_wrap=on summaries/prose are compared modulo runs of whitespace (re-filling is by design)",
]
ANCHORS = [
    ("doctrans/docstring_parsers.py", "parse_docstring"),
    ("doctrans/docstring_parsers.py", "_scan_phase_rest"),
    ("doctrans/docstring_parsers.py", "_scan_phase_numpydoc_and_google"),
    ("doctrans/docstring_parsers.py", "_parse_phase_rest"),
    ("doctrans/docstring_parsers.py", "_parse_phase_numpydoc_and_google"),
    ("doctrans/docstring_utils.py", "emit_param_str"),
    ("doctrans/emit.py", "docstring"),
    ("doctrans/defaults_utils.py", "extract_default"),
    ("doctrans/defaults_utils.py", "set_default_doc"),
]

import os

STYLES = tuple((os.environ.get("DTVERIF_STYLES") or "rest,numpydoc,google").split(","))


class DocTable(Table):
    kind = "docstring"

    def __init__(self, emit_default_doc, word_wrap):
        self.compare_defaults = emit_default_doc
        self.wrap = word_wrap
        self.summary_wrap = word_wrap

    def accept_default(self, name, p, pf):
        acc = [canon_default(p.get("default", ABSENT))]
        return acc

    def accept_typ(self, name, p, pf):
        return [canon_typ(p.get("typ"))]


def one(ctx, taps, seen_style, ir, feat, style, edd, ww, parse_edd):
    from doctrans import emit, parse

    base = {
        "op": "roundtrip_docstring",
        "style": style,
        "emit_default_doc": edd,
        "word_wrap": ww,
        "parse_emit_default_doc": parse_edd,
    }
    base.update(case_flags(feat))
    base["case_wrappable_entry"] = any(
        len(p.get("doc") or "") + len(str(p.get("default", ""))) + 24 > 96
        for p in list(ir["params"].values()) + list((ir.get("returns") or {}).values())
    )
    base.update(n_params=feat["n_params"], has_kwargs=feat["kwargs"], has_return=feat["has_return"])
    replay = {"ir": ir_jsonable(ir), "feat": feat, "style": style, "emit_default_doc": edd, "word_wrap": ww,
              "parse_emit_default_doc": parse_edd}
    try:
        text = emit.docstring(ir_copy(ir), docstring_format=style, word_wrap=ww, emit_default_doc=edd)
    except Exception as e:
        ctx.report_exception(e, base, replay, stage="emit")
        return None
    ctx.event("emit.docstring")
    seen_style.clear()
    try:
        back = parse.docstring(text, emit_default_doc=parse_edd)
    except Exception as e:
        replay["text"] = text
        ctx.report_exception(e, base, replay, stage="parse")
        return text
    ctx.event("parse.docstring")
    replay["text"] = text
    # a text without any rendered section is a bare summary: it has no style to recognise
    has_sections = any(p.get("typ") or p.get("doc") for p in ir["params"].values()) or any(
        p.get("typ") or p.get("doc") for p in (ir.get("returns") or {}).values()
    )
    if seen_style:
        ctx.event("style_observed")
        got = seen_style[-1]
        if got != style and has_sections:
            ctx.report(dict(base, field="style", tag="misrecognised", expected=style, observed=got), replay)
    for d in compare(ir, back, feat, DocTable(edd, ww), base):
        ctx.report(d, replay)
    return text


def run(ctx):
    import doctrans.docstring_parsers as dp

    taps = Taps()
    seen_style = []
    taps.tap(dp, "_scan_phase")
    taps.listen("docstring_parsers._scan_phase",
                lambda a, kw, res, exc: seen_style.append((kw.get("style") or a[1]).name))
    ctx.require("style_observed", 10)
    ctx.require("parse.docstring", 10)
    n = ctx.n(6000, 160000)
    g = IRGen(ctx.rng, knobs(hostile_strings=not ctx.quick(), p_doc_states_default=0.15, p_hyphen_tokens=0.3))
    try:
        for i in range(n):
            ir, feat = g.ir()
            for style in STYLES:
                # option combination: rotate so all four appear for every style
                combos = [(True, False), (True, True), (False, False), (False, True)]
                edd, ww = combos[(i + STYLES.index(style)) % 4]
                parse_edd = bool((i // 4) % 2)
                ctx.case(
                    shape_signature(feat, (style, edd, ww)),
                    nontrivial=feat["n_params"] > 0 or feat["has_return"] or feat["kwargs"],
                    sample={"style": style, "emit_default_doc": edd, "word_wrap": ww, "ir": ir_jsonable(ir)},
                    sample_key=style,
                )
                ctx.feature("style=" + style)
                if feat["n_params"] == 0:
                    ctx.feature("zero_params")
                if feat["has_return"] and feat["n_params"] == 0 and not feat["kwargs"]:
                    ctx.feature("only_return")
                for pf in feat["params"].values():
                    ctx.feature("default=" + pf["default_class"])
                one(ctx, taps, seen_style, ir, feat, style, edd, ww, parse_edd)
    finally:
        taps.undo()
    for k, v in taps.hits.items():
        ctx.event("tap:" + k, v)


def replay(payload):
    """Re-run one recorded case under the same oracle; returns list of discrepancies."""
    from ..runner import Ctx

    rp = payload["replay"]
    ir = ir_from_jsonable(rp["ir"])
    ctx = Ctx(PROPERTY, "quick", 0)
    import doctrans.docstring_parsers as dp

    taps = Taps()
    seen = []
    taps.tap(dp, "_scan_phase")
    taps.listen("docstring_parsers._scan_phase", lambda a, kw, res, exc: seen.append((kw.get("style") or a[1]).name))
    feat = rp["feat"]
    ctx.case(("replay",))
    one(ctx, taps, seen, ir, feat, rp["style"], rp["emit_default_doc"], rp["word_wrap"], rp["parse_emit_default_doc"])
    taps.undo()
    return ctx
