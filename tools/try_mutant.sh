#!/bin/bash
# usage: try_mutant.sh <patch.diff> <tier> C01 [C05 ...]
# Applies the patch to a scratch worktree of /repo's HEAD (never to /repo itself), checks that the
# repository's own baseline still passes there, and runs the given checks against that worktree.
patch=$1; tier=$2; shift 2
wt=$(mktemp -d /tmp/mt_XXXXXX); rmdir $wt
git -C /repo worktree add -q --detach $wt HEAD || exit 2
trap "git -C /repo worktree remove --force $wt; git -C /repo worktree prune" EXIT
(cd $wt && git apply --whitespace=nowarn $patch) || { echo "PATCH DOES NOT APPLY"; exit 2; }
echo -n "baseline on mutant: "; /verif/tools/baseline_check.py $wt | head -3 | tr '\n' ' '; echo
ev=$(mktemp -d /tmp/mtev_XXXXXX)
for c in "$@"; do
  out=$(cd /verif && DTVERIF_REPO=$wt DTVERIF_EVIDENCE_DIR=$ev /venv/bin/python -m dtverif.run $c --tier $tier 2>&1); rc=$?
  echo "$c rc=$rc $(echo "$out" | grep -E '^SUMMARY' | cut -c1-160)"
  echo "$out" | grep -E '^VIOLATION|^INCONCL' | head -2 | cut -c1-200
  echo "$out" | grep -E '^  what:' | head -2 | sed 's/case_[a-z_]*=[^,]*, //g' | cut -c1-500
done
rm -rf $ev
