"""The seven representation kinds as (emit -> text, parse text -> IR) pairs over the REAL
doctrans emitters/parsers, plus their expressibility tables (the only place leniency lives).
"""
import ast

from .canon import ABSENT, ZERO, Table, canon_default, canon_typ

DOC_KINDS = ("rest", "numpydoc", "google")
CODE_KINDS = ("class", "function", "method", "argparse")
ALL_KINDS = DOC_KINDS + CODE_KINDS

SCALARS = ("str", "int", "float", "bool")


def _is_kwargs(name):
    return name.endswith("kwargs")


# ------------------------------------------------------------------------------ tables
class DocTable(Table):
    kind = "docstring"

    def __init__(self, emit_default_doc=True, word_wrap=False):
        self.compare_defaults = emit_default_doc
        self.wrap = word_wrap
        self.summary_wrap = word_wrap


class ClassTable(Table):
    """README/goldens: attribute without default acquires the zero value of its scalar type
    or None; an untyped attribute is annotated `object` or with the type of its default."""

    kind = "class"
    sentence_stripped_on_parse = True

    def __init__(self, word_wrap=False):
        self.wrap = word_wrap
        self.summary_wrap = word_wrap

    def accept_default(self, name, p, pf):
        d = p.get("default", ABSENT)
        if d is ABSENT:
            acc = [("absent",), ("none",)]
            t = p.get("typ")
            if t in ZERO:
                acc.append(canon_default(ZERO[t]))
            return acc
        return [canon_default(d)]

    def accept_typ(self, name, p, pf):
        t = p.get("typ")
        if t is None:
            acc = [None, canon_typ("object")]
            d = p.get("default", ABSENT)
            if d is not ABSENT and canon_default(d)[0] not in ("none", "code"):
                acc.append(canon_typ(type(d).__name__))
            return acc
        return [canon_typ(t)]

    def accept_return_default(self, p, pf):
        from .canon import return_default_equivalents

        acc = self.accept_default("return_type", p, pf)
        return acc + (return_default_equivalents(p["default"])[1:] if "default" in p else [])

    accept_return_typ = lambda self, p, pf: self.accept_typ("return_type", p, pf)  # noqa: E731


class FunctionTable(Table):
    """A parameter without a default is emitted with `=None` (documented normalisation)."""

    kind = "function"

    def __init__(self, word_wrap=False):
        self.wrap = word_wrap
        self.summary_wrap = word_wrap
        # a summary none of whose lines exceeds the width needs no wrapping: it comes back as it was
        import os

        self.summary_exact_within = int(os.environ.get("DOCTRANS_LINE_LENGTH", 100))

    def accept_default(self, name, p, pf):
        d = p.get("default", ABSENT)
        if d is ABSENT:
            return [("absent",), ("none",)]
        return [canon_default(d)]

    def accept_return_default(self, p, pf):
        d = p.get("default", ABSENT)
        if d is ABSENT:
            return [("absent",)]
        # the returned expression is carried as code: quoted or not is the same value
        c = canon_default(d)
        if c[0] == "str":
            from .canon import _strip_parens_dump

            from .canon import return_default_equivalents

            return [c, ("code", _strip_parens_dump(d))] + return_default_equivalents(d)[1:]
        return [c]


class ArgparseTable(Table):
    """Required options without a default acquire the zero value of their type; types
    argparse cannot express fall back to str; a return entry survives only with a default."""

    kind = "argparse"
    sentence_stripped_on_parse = True

    def __init__(self, word_wrap=False, wrap_description=False):
        self.wrap = word_wrap
        self.summary_wrap = wrap_description

    def _base_scalar(self, t):
        if t in SCALARS:
            return t
        if t and t.startswith("Optional[") and t[9:-1] in SCALARS:
            return t[9:-1]
        return None

    def expressible(self, t):
        if t is None:
            return False
        if self._base_scalar(t):
            return True
        return t.startswith(("List[", "Literal[", "Optional[List[", "Optional[Literal[")) or t == "Optional[dict]"

    def accept_typ(self, name, p, pf):
        t = p.get("typ")
        if _is_kwargs(name):
            return [canon_typ("Optional[dict]")]
        if self.expressible(t):
            acc = [canon_typ(t)]
            if canon_default(p.get("default", ABSENT))[0] == "none" and not t.startswith("Optional["):
                acc.append(canon_typ("Optional[{}]".format(t)))  # None default <-> not required <-> Optional
            return acc
        # fallback to str (possibly Optional when not required), or the scalar type that
        # argparse's own `type=` is inferred from (the type of the default)
        acc = [canon_typ("str"), canon_typ("Optional[str]")]
        d = p.get("default", ABSENT)
        if d is not ABSENT and type(d).__name__ in SCALARS:
            acc += [canon_typ(type(d).__name__), canon_typ("Optional[{}]".format(type(d).__name__))]
        return acc

    def accept_default(self, name, p, pf):
        d = p.get("default", ABSENT)
        if d is ABSENT:
            t = p.get("typ")
            acc = [("absent",)]
            b = t if t in SCALARS else None
            if t and t.startswith("Literal['"):
                acc.append(canon_default(""))  # zero value of the choices' scalar type
            if b:
                acc.append(canon_default(ZERO[b]))
            elif not self.expressible(t):
                acc.append(canon_default(""))  # str fallback, required -> zero value of str
                acc.append(("none",))
            elif t.startswith("Optional["):
                acc.append(("none",))  # not required <-> None
            # a required List[...] / Literal[...] option has no business acquiring None
            return acc
        return [canon_default(d)]

    def return_expected(self, ir, feat):
        r = (ir.get("returns") or {}).get("return_type")
        if not r or "default" not in r:
            return None
        return r

    def accept_return_default(self, p, pf):
        d = p.get("default", ABSENT)
        c = canon_default(d)
        if c[0] == "str":
            from .canon import _strip_parens_dump

            from .canon import return_default_equivalents

            return [c, ("code", _strip_parens_dump(d))] + return_default_equivalents(d)[1:]
        return [c]


# ------------------------------------------------------------------------------ emit / parse
def to_src(node):
    from doctrans.source_transformer import to_code

    return to_code(node)


def emit_kind(kind, ir, opts):
    """Run the real emitter.  Returns source text (docstring text for doc kinds)."""
    from doctrans import emit

    edd = opts.get("emit_default_doc", True if kind in DOC_KINDS else False)
    ww = opts.get("word_wrap", False)
    if kind in DOC_KINDS:
        return emit.docstring(ir, docstring_format=kind, word_wrap=ww, emit_default_doc=edd)
    if kind == "class":
        node = emit.class_(ir, class_name=opts.get("name", "ConfigClass"), emit_default_doc=edd, word_wrap=ww,
                           emit_call=opts.get("emit_call", False))
        return to_src(node)
    if kind in ("function", "method"):
        ftype = opts.get("function_type") or ("static" if kind == "function" else "self")
        fname = opts.get("name", "f_target")
        if opts.get("kind_from_description"):
            # name and kind are taken from the description itself (as when a parsed method is re-emitted,
            # or when sync creates a missing function): nothing is passed explicitly
            ir = dict(ir, name=fname, type=ftype)
            fname = ftype = None
        node = emit.function(
            ir,
            function_name=fname,
            function_type=ftype,
            word_wrap=ww,
            emit_default_doc=edd,
            indent_level=opts.get("indent_level", 1),
            emit_separating_tab=opts.get("emit_separating_tab", True),
            inline_types=opts.get("inline_types", True),
            emit_as_kwonlyargs=opts.get("emit_as_kwonlyargs", False),
        )
        return to_src(node)
    if kind == "argparse":
        node = emit.argparse_function(
            ir, emit_default_doc=edd, word_wrap=ww, wrap_description=opts.get("wrap_description", False),
            function_name=opts.get("name", "set_cli_args"),
        )
        return to_src(node)
    raise ValueError(kind)


def parse_kind(kind, text, opts):
    from doctrans import parse

    if kind in DOC_KINDS:
        return parse.docstring(text, emit_default_doc=opts.get("parse_emit_default_doc", True))
    node = ast.parse(text).body[0]
    if kind == "class":
        return parse.class_(node)
    if kind in ("function", "method"):
        return parse.function(node)
    if kind == "argparse":
        return parse.argparse_ast(node)
    raise ValueError(kind)


def table_for(kind, opts):
    ww = opts.get("word_wrap", False)
    if kind in DOC_KINDS:
        return DocTable(opts.get("emit_default_doc", True), ww)
    if kind == "class":
        return ClassTable(ww)
    if kind in ("function", "method"):
        return FunctionTable(ww)
    return ArgparseTable(ww, opts.get("wrap_description", False))


def option_space(kind):
    """All option combinations of a kind (list of dicts)."""
    out = []
    if kind in DOC_KINDS:
        for edd in (True, False):
            for ww in (False, True):
                for pedd in (True, False):
                    out.append(dict(emit_default_doc=edd, word_wrap=ww, parse_emit_default_doc=pedd))
    elif kind == "class":
        for edd in (False, True):
            for ww in (False, True):
                out.append(dict(emit_default_doc=edd, word_wrap=ww))
    elif kind in ("function", "method"):
        types = ("static",) if kind == "function" else ("self", "cls")
        for ft in types:
            for inline in (True, False):
                for kwonly in (False, True):
                    for il in (0, 1, 2):
                        for tab in (True, False):
                            for edd in (False, True):
                                for ww in (False, True):
                                    out.append(dict(function_type=ft, inline_types=inline, emit_as_kwonlyargs=kwonly,
                                                    indent_level=il, emit_separating_tab=tab, emit_default_doc=edd,
                                                    word_wrap=ww, kind_from_description=(len(out) % 3 == 1)))
    else:
        for edd in (False, True):
            for ww in (False, True):
                for wd in (False, True):
                    out.append(dict(emit_default_doc=edd, word_wrap=ww, wrap_description=wd))
    return out
