"""C06 -- emitted code is valid Python that behaves as the IR says.

E: the source text of every emitted artefact, and what CPython makes of it.
O: judged by the interpreter, never by doctrans' parsers: ast.parse succeeds; unparse /
   re-parse is a fixed point; emit.file (with and without black) writes a file whose tree
   equals the node's tree; exec, then class __annotations__/__dict__, inspect.signature of
   the function, and the action table of a real ArgumentParser agree with the IR.
"""
import argparse
import ast
import re
import inspect
import json
import os
import shutil
import tempfile
import typing

from ..canon import ABSENT, ZERO, canon_default, canon_typ, is_code_quoted, ws
from ..gen_ir import IRGen, ir_copy, ir_jsonable, ir_from_jsonable, knobs, shape_signature
from ..kinds import option_space
from ..roundtrip import case_base

PROPERTY = "C06"
LEVEL = "exploration"
SHARDS = {"quick": 6, "thorough": 16}
TIMEOUT = {"quick": 900, "thorough": 3400}
OP = "exec_emitted"
RULE = (
    "seeded IR generator x artefact kind{class,function,method,argparse} x emitter option combination (cycled); one "
    "evaluation = one emitted artefact compiled, unparsed/re-parsed, written with emit.file (black on a sample), "
    "executed, and inspected with inspect.signature / class __dict__ / a real argparse.ArgumentParser; non-trivial = "
    "the IR has a parameter or a return entry; distinct = distinct (shape signature, kind, options)"
)
ASSUMPTIONS = [
    "dotted names (np, tf, torch, pathlib) are provided as inert stand-in classes in the exec namespace; `loads` (json) "
    "is supplied as the documented import contract of argparse targets",
    "a back-tick quoted code default is accepted either as the expression or as the back-tick quoted string constant "
    "(that is what the repository's goldens pin)",
    "held = held on the executions observed",
]
ANCHORS = [
    ("doctrans/ast_utils.py", "set_value"),
    ("doctrans/ast_utils.py", "set_arg"),
    ("doctrans/source_transformer.py", "to_code"),
    ("doctrans/emit.py", "file"),
    ("doctrans/emitter_utils.py", "ast_parse_fix"),
    ("doctrans/emit.py", "function"),
    ("doctrans/emit.py", "class_"),
    ("doctrans/emit.py", "argparse_function"),
]


def namespace():
    ns = {}
    exec("from typing import *", ns)

    class _Stand(type):
        def __call__(cls, *a, **kw):  # np.empty(0) etc. evaluate to an inert object
            return ("stand-in", cls.__name__, a)

        def __getattr__(cls, name):
            if name.startswith("__"):
                raise AttributeError(name)
            sub = _Stand(name, (), {})
            setattr(cls, name, sub)
            return sub

    for top in ("np", "tf", "torch", "pathlib"):
        ns[top] = _Stand(top, (), {})
    ns["loads"] = json.loads
    ns["make_thing"] = lambda *a: ("made", a)
    ns["ArgumentParser"] = argparse.ArgumentParser
    return ns


def default_ok(expected, observed):
    """expected: IR default; observed: the Python object found in the executed artefact."""
    ce = canon_default(expected)
    if ce[0] == "none":
        return observed is None
    if ce[0] == "code":
        if isinstance(observed, str) and canon_default(observed) == ce:
            return True  # back-tick quoted string constant
        if isinstance(observed, str) and canon_default("```{}```".format(observed)) == ce:
            return True
        return False
    return type(observed) is type(expected) and observed == expected


def node_default_ok(expected, node):
    """Like default_ok but on the AST node of the emitted value: a plain-string IR default
    under a non-str type is an expression by the README's own example (K: Union[np, tf] = np)."""
    ce = canon_default(expected)
    try:
        val = ast.literal_eval(node)
        is_lit = True
    except Exception:
        val, is_lit = None, False
    if is_lit and not isinstance(val, (list, tuple, dict, set)):
        return default_ok(expected, val)
    src = ast.unparse(node)
    got = canon_default("```{}```".format(src))
    if ce[0] == "code":
        return got == ce
    if ce[0] == "str":
        return got == canon_default("```{}```".format(expected))
    return False


def typ_src_ok(expected_typ, node, untyped_ok=()):
    if node is None:
        return expected_typ is None
    got = canon_typ(ast.unparse(node))
    if expected_typ is None:
        return got in [canon_typ(t) for t in untyped_ok]
    return got == canon_typ(expected_typ)


def _report(ctx, base, replay, pf, field, tag, name, expected, observed):
    d = dict(base, field=field, tag=tag, param=name, expected=repr(expected)[:300], observed=repr(observed)[:300])
    if pf:
        d.update(typ_class=pf["typ_class"], default_class=pf["default_class"], doc_class=pf["doc_class"], param_kind=pf["kind"],
                 after_defaulted=pf.get("after_defaulted"), doc_states_default=bool(pf.get("doc_states_default")))
    ctx.report(d, replay)


def _norm_docstrings(tree):
    for node in ast.walk(tree):
        if isinstance(node, (ast.FunctionDef, ast.ClassDef, ast.Module)) and node.body:
            first = node.body[0]
            if isinstance(first, ast.Expr) and isinstance(first.value, ast.Constant) and isinstance(first.value.value, str):
                first.value.value = "\n".join(l.strip() for l in first.value.value.strip().split("\n"))
    return tree


def _shape(n):
    """Nested tuples describing an AST: class name + the fields that carry something."""
    if isinstance(n, ast.UnaryOp) and isinstance(n.op, ast.USub) and isinstance(n.operand, ast.Constant) \
            and isinstance(n.operand.value, (int, float)) and not isinstance(n.operand.value, bool):
        # CPython has no negative literals: Constant(-9) unparses to "-9", which parses to -(9)
        return ("Constant", ("value", ("=", type(n.operand.value).__name__, -n.operand.value)))
    if isinstance(n, ast.AST):
        out = [type(n).__name__]
        for f in n._fields:
            v = getattr(n, f, None)
            if v is None or v == [] or f in ("kind", "type_comment", "ctx"):
                continue
            out.append((f, _shape(v)))
        return tuple(out)
    if isinstance(n, (list, tuple)):
        return tuple(_shape(x) for x in n)
    return ("=", type(n).__name__, n)


def _first_diff(a, b):
    if isinstance(a, tuple) and isinstance(b, tuple) and len(a) == len(b) and a[:1] == b[:1]:
        for x, y in zip(a, b):
            if x != y:
                return _first_diff(x, y)
    return a, b


def check_common(ctx, base, replay, src, node, tmpdir, with_black):
    """Syntax, unparse/re-parse fixed point, emit.file trees."""
    from doctrans import emit
    from doctrans.source_transformer import to_code

    try:
        tree = ast.parse(src)
    except SyntaxError as e:
        ctx.report(dict(base, field="syntax", tag="invalid", msg=str(e)[:200], expected="valid python", observed=src[:300]), replay)
        return None
    ctx.event("compiled")
    again = ast.parse(to_code(ast.parse(src)))
    if ast.dump(again) != ast.dump(tree):
        ctx.report(dict(base, field="unparse", tag="not_fixed_point", expected="", observed=""), replay)
    ctx.event("unparse_fixed_point_checked")
    # the emitted NODE itself against its own unparse/re-parse (fields the emitter left
    # unset, None or empty are neutral; node classes and every set field must agree)
    emitted, reparsed = _shape(node), _shape(tree.body[0] if not isinstance(node, ast.Module) else tree)
    if emitted != reparsed:
        where = _first_diff(emitted, reparsed)
        ctx.report(dict(base, field="emitted_node", tag="differs_from_its_reparse", expected=str(where[0])[:200], observed=str(where[1])[:200]), replay)
    ctx.event("emitted_node_compared_with_reparse")
    for skip_black in ((True, False) if with_black else (True,)):
        fn = os.path.join(tmpdir, "out_{}.py".format(int(skip_black)))
        if os.path.exists(fn):
            os.unlink(fn)
        try:
            emit.file(node, fn, mode="wt", skip_black=skip_black)
            with open(fn) as f:
                ftree = ast.parse(f.read())
        except Exception as e:
            ctx.report_exception(e, base, replay, stage="emit.file(skip_black={})".format(skip_black))
            continue
        ctx.event("emit.file")
        if skip_black:
            same = ast.dump(ftree) == ast.dump(tree)
        else:
            # black re-indents docstrings and strips their trailing blanks: compare the
            # trees with docstring lines stripped (weaker reading of "identical tree")
            same = ast.dump(_norm_docstrings(ftree)) == ast.dump(_norm_docstrings(ast.parse(src)))
        if not same:
            ctx.report(dict(base, field="file", tag="tree_differs", skip_black=skip_black, expected="", observed=""), replay)
    if with_black:
        # append sequences: the same artefact emitted twice into one file, with every order of
        # formatted / unformatted emission (unformatted output does not end in a newline)
        for first, second in ((True, False), (False, True), (True, True), (False, False)):
            fn = os.path.join(tmpdir, "seq_{}{}.py".format(int(first), int(second)))
            if os.path.exists(fn):
                os.unlink(fn)
            try:
                emit.file(node, fn, mode="wt", skip_black=first)
                emit.file(node, fn, mode="a", skip_black=second)
                with open(fn) as f:
                    both = ast.parse(f.read())
            except SyntaxError as e:
                ctx.report(dict(base, field="file", tag="append_sequence_does_not_parse", first_skip_black=first, second_skip_black=second,
                                expected="valid python", observed=str(e)[:120]), replay)
                continue
            except Exception as e:
                ctx.report_exception(e, dict(base, first_skip_black=first, second_skip_black=second), replay, stage="emit.file(append sequence)")
                continue
            ctx.event("emit.file_append_sequences")
            want = ast.dump(_norm_docstrings(ast.parse(src + "\n" + src)))
            if ast.dump(_norm_docstrings(both)) != want:
                ctx.report(dict(base, field="file", tag="append_sequence_tree_differs", first_skip_black=first, second_skip_black=second,
                                expected="", observed=""), replay)
    return tree


def check_class(ctx, base, replay, ir, feat, tree, src):
    ns = namespace()
    try:
        exec(compile(tree, "<emitted>", "exec"), ns)
    except Exception as e:
        ctx.report_exception(e, base, replay, stage="exec")
        return
    ctx.event("executed.class")
    cls = ns["ConfigClass"]
    cdef = tree.body[0]
    ann_nodes = {s.target.id: s for s in cdef.body if isinstance(s, ast.AnnAssign)}
    expected = list(ir["params"].items())
    if ir.get("returns"):
        expected.append(("return_type", ir["returns"]["return_type"]))
    names = list(getattr(cls, "__annotations__", {}).keys())
    if names != [n for n, _ in expected]:
        ctx.report(dict(base, field="attributes", tag="names_or_order", expected=str([n for n, _ in expected]), observed=str(names)), replay)
    for n, p in expected:
        pf = feat["ret"] if n == "return_type" else feat["params"].get(n)
        if n not in ann_nodes:
            continue
        d = p.get("default", ABSENT)
        untyped_ok = ["object"] + ([type(d).__name__] if d is not ABSENT and canon_default(d)[0] not in ("none", "code") else [])
        if not typ_src_ok(p.get("typ"), ann_nodes[n].annotation, untyped_ok):
            _report(ctx, base, replay, pf, "typ", "annotation_differs", n, p.get("typ"), ast.unparse(ann_nodes[n].annotation))
        val = cls.__dict__.get(n, ABSENT)
        vnode = ann_nodes[n].value
        if d is ABSENT:
            t = p.get("typ")
            ok = val is None or (t in ZERO and type(val) is type(ZERO[t]) and val == ZERO[t])
        else:
            ok = vnode is not None and node_default_ok(d, vnode)
        if not ok:
            _report(ctx, base, replay, pf, "default", "value_differs", n, d, val)


def check_function(ctx, base, replay, ir, feat, tree, src, opts, kind):
    ns = namespace()
    try:
        exec(compile(tree, "<emitted>", "exec"), ns)
    except Exception as e:
        ctx.report_exception(e, base, replay, stage="exec")
        return
    ctx.event("executed." + kind)
    fn = ns["f_target"]
    sig = inspect.signature(fn)
    fdef = tree.body[0]
    params = list(sig.parameters.values())
    ftype = opts.get("function_type") or "static"
    if ftype in ("self", "cls"):
        if not params or params[0].name != ftype:
            ctx.report(dict(base, field="first_arg", tag="missing", expected=ftype, observed=str([p.name for p in params])), replay)
        params = params[1:]
    exp_names = list(ir["params"].keys())
    got_names = [p.name for p in params]
    if got_names != exp_names:
        ctx.report(dict(base, field="signature", tag="names_or_order", expected=str(exp_names), observed=str(got_names)), replay)
        return
    ann = {a.arg: a.annotation for a in fdef.args.args + fdef.args.kwonlyargs}
    dnodes = {}
    pos = fdef.args.args
    for a, dn in zip(pos[len(pos) - len(fdef.args.defaults):], fdef.args.defaults):
        dnodes[a.arg] = dn
    for a, dn in zip(fdef.args.kwonlyargs, fdef.args.kw_defaults):
        if dn is not None:
            dnodes[a.arg] = dn
    for p in params:
        ep, pf = ir["params"][p.name], feat["params"][p.name]
        if p.name.endswith("kwargs"):
            if p.kind is not inspect.Parameter.VAR_KEYWORD:
                _report(ctx, base, replay, pf, "kind", "kwargs_not_variadic", p.name, "VAR_KEYWORD", str(p.kind))
            continue
        want_kind = inspect.Parameter.KEYWORD_ONLY if opts.get("emit_as_kwonlyargs") else inspect.Parameter.POSITIONAL_OR_KEYWORD
        if p.kind is not want_kind:
            _report(ctx, base, replay, pf, "kind", "wrong_kind", p.name, str(want_kind), str(p.kind))
        d = ep.get("default", ABSENT)
        if d is ABSENT:
            if p.default not in (None, inspect.Parameter.empty):
                _report(ctx, base, replay, pf, "default", "invented", p.name, d, p.default)
        elif p.default is inspect.Parameter.empty or p.name not in dnodes or not node_default_ok(d, dnodes[p.name]):
            _report(ctx, base, replay, pf, "default", "value_differs", p.name, d, p.default)
        if opts.get("inline_types", True):
            if not typ_src_ok(ep.get("typ"), ann.get(p.name), ()):
                _report(ctx, base, replay, pf, "typ", "annotation_differs", p.name, ep.get("typ"),
                        None if ann.get(p.name) is None else ast.unparse(ann[p.name]))
        elif ann.get(p.name) is not None:
            _report(ctx, base, replay, pf, "typ", "unexpected_annotation", p.name, None, ast.unparse(ann[p.name]))
    rt = (ir.get("returns") or {}).get("return_type") or {}
    if opts.get("inline_types", True):
        if not typ_src_ok(rt.get("typ"), fdef.returns, ()):
            _report(ctx, base, replay, feat["ret"], "typ", "return_annotation_differs", "return_type", rt.get("typ"),
                    None if fdef.returns is None else ast.unparse(fdef.returns))
    elif fdef.returns is not None:
        _report(ctx, base, replay, feat["ret"], "typ", "unexpected_return_annotation", "return_type", None, ast.unparse(fdef.returns))
    # the returned expression
    rets = [s for s in fdef.body if isinstance(s, ast.Return)]
    if rt.get("default"):
        want = canon_default(rt["default"] if is_code_quoted(rt["default"]) else "```{}```".format(rt["default"]))
        if len(rets) != 1 or canon_default("```{}```".format(ast.unparse(rets[0].value))) != want:
            _report(ctx, base, replay, feat["ret"], "return_stmt", "differs", "return_type", rt["default"],
                    [ast.unparse(r) for r in rets])
    elif rets:
        _report(ctx, base, replay, feat["ret"], "return_stmt", "invented", "return_type", None, [ast.unparse(r) for r in rets])


def check_argparse(ctx, base, replay, ir, feat, tree, src, opts):
    ns = namespace()
    try:
        exec(compile(tree, "<emitted>", "exec"), ns)
        parser = argparse.ArgumentParser(prog="x")
        res = ns["set_cli_args"](parser)
    except Exception as e:
        ctx.report_exception(e, base, replay, stage="exec")
        return
    ctx.event("executed.argparse")
    want_desc = ir["doc"]
    if (ws(parser.description) if opts.get("wrap_description") else parser.description) != (ws(want_desc) if opts.get("wrap_description") else want_desc):
        ctx.report(dict(base, field="summary", tag="description_differs", expected=want_desc[:200], observed=str(parser.description)[:200]), replay)
    actions = [a for a in parser._actions if a.dest != "help"]
    exp_names = list(ir["params"].keys())
    if [a.dest for a in actions] != exp_names:
        ctx.report(dict(base, field="options", tag="names_or_order", expected=str(exp_names), observed=str([a.dest for a in actions])), replay)
        return
    scal = {"int": int, "float": float, "bool": bool, "str": None}
    knodes = {}
    for st in tree.body[0].body:
        if isinstance(st, ast.Expr) and isinstance(st.value, ast.Call) and getattr(st.value.func, "attr", None) == "add_argument":
            nm = st.value.args[0].value[2:]
            knodes[nm] = {k.arg: k.value for k in st.value.keywords}
    for a in actions:
        ep, pf = ir["params"][a.dest], feat["params"][a.dest]
        t = ep.get("typ")
        d = ep.get("default", ABSENT)
        base_t = t[9:-1] if t and t.startswith("Optional[") else t
        # type
        if base_t in scal and pf["kind"] == "param":
            want_t = scal[base_t]
            if a.type is not want_t and not (want_t is None and a.type is str):
                _report(ctx, base, replay, pf, "typ", "argparse_type", a.dest, base_t, getattr(a.type, "__name__", a.type))
        # choices
        if t and t.startswith("Literal["):
            want_choices = tuple(ast.literal_eval("(" + t[len("Literal["):-1] + ",)"))
            if tuple(a.choices or ()) != want_choices:
                _report(ctx, base, replay, pf, "choices", "differs", a.dest, want_choices, a.choices)
        elif a.choices is not None:
            _report(ctx, base, replay, pf, "choices", "invented", a.dest, None, a.choices)
        # list-ness
        is_append = type(a).__name__ == "_AppendAction"
        if bool(t and (t.startswith("List[") or t.startswith("Optional[List["))) != is_append:
            _report(ctx, base, replay, pf, "action", "append_mismatch", a.dest, t, type(a).__name__)
        # required <-> Optional / default
        if t and t.startswith("Optional[") and a.required:
            _report(ctx, base, replay, pf, "required", "optional_but_required", a.dest, t, a.required)
        if t in ("str", "int", "float", "bool") and not a.required:
            _report(ctx, base, replay, pf, "required", "scalar_not_required", a.dest, t, a.required)
        # default
        if d is ABSENT:
            if a.default is not None:
                _report(ctx, base, replay, pf, "default", "invented", a.dest, d, a.default)
        elif "default" not in knodes.get(a.dest, {}) or not node_default_ok(d, knodes[a.dest]["default"]):
            if not (canon_default(d)[0] == "none" and a.default is None):
                _report(ctx, base, replay, pf, "default", "value_differs", a.dest, d, a.default)
        # help
        want_help = ep.get("doc")
        got_help = a.help
        if want_help and not opts.get("emit_default_doc") and pf.get("doc_states_default"):
            # prose that states its own default: without default text the sentence is removed
            stem = re.split(r"\s*Defaults to ", want_help)[0]
            if ws(got_help or "").rstrip(".") != ws(stem).rstrip("."):
                _report(ctx, base, replay, pf, "doc", "help_differs", a.dest, stem, got_help)
        elif want_help and not opts.get("emit_default_doc"):
            if (ws(got_help) if opts.get("word_wrap") else got_help) != (ws(want_help) if opts.get("word_wrap") else want_help):
                _report(ctx, base, replay, pf, "doc", "help_differs", a.dest, want_help, got_help)
        elif want_help and (got_help is None or ws(want_help.rstrip(".,")) not in ws(got_help)):
            _report(ctx, base, replay, pf, "doc", "help_differs", a.dest, want_help, got_help)
    if not (isinstance(res, tuple) and res[0] is parser) and res is not parser:
        ctx.report(dict(base, field="return", tag="parser_not_returned", expected="parser", observed=repr(res)[:100]), replay)


def one(ctx, kind, ir, feat, opts, tmpdir, with_black):
    from doctrans import emit
    from doctrans.source_transformer import to_code

    base = case_base(OP, kind, ir, feat, opts)
    replay = {"ir": ir_jsonable(ir), "feat": feat, "kind": kind, "opts": opts}
    edd, ww = opts.get("emit_default_doc", False), opts.get("word_wrap", False)
    try:
        if kind == "class":
            node = emit.class_(ir_copy(ir), class_name="ConfigClass", emit_default_doc=edd, word_wrap=ww)
        elif kind in ("function", "method"):
            fir, fname, ftype = ir_copy(ir), "f_target", opts["function_type"]
            if opts.get("kind_from_description"):
                # name and kind come from the description itself (nothing passed explicitly)
                fir = dict(fir, name=fname, type=ftype)
                fname = ftype = None
            node = emit.function(fir, function_name=fname, function_type=ftype, word_wrap=ww,
                                 emit_default_doc=edd, indent_level=opts["indent_level"],
                                 emit_separating_tab=opts["emit_separating_tab"], inline_types=opts["inline_types"],
                                 emit_as_kwonlyargs=opts["emit_as_kwonlyargs"])
        else:
            node = emit.argparse_function(ir_copy(ir), emit_default_doc=edd, word_wrap=ww,
                                          wrap_description=opts.get("wrap_description", False))
        src = to_code(node)
    except Exception as e:
        ctx.report_exception(e, base, replay, stage="emit")
        return
    replay["text"] = src
    ctx.event("emitted." + kind)
    tree = check_common(ctx, base, replay, src, node, tmpdir, with_black)
    if tree is None:
        return
    if kind == "class":
        check_class(ctx, base, replay, ir, feat, tree, src)
    elif kind in ("function", "method"):
        check_function(ctx, base, replay, ir, feat, tree, src, opts, kind)
    else:
        check_argparse(ctx, base, replay, ir, feat, tree, src, opts)


KINDS = ("class", "function", "method", "argparse")


def run(ctx):
    for k in KINDS:
        ctx.require("executed." + k, 10)
    ctx.require("emit.file", 10)
    g = IRGen(ctx.rng, knobs(hostile_strings=not ctx.quick(), p_doc_states_default=0.15, p_hyphen_tokens=0.3))
    ga = IRGen(ctx.rng, knobs(hostile_strings=not ctx.quick(), argparse_domain=True, p_doc_states_default=0.15, p_hyphen_tokens=0.3))
    # functions / methods: the signature default is the description's own default, whatever the prose says
    gf = IRGen(ctx.rng, knobs(hostile_strings=not ctx.quick(), p_doc_states_default=0.3, p_stale_doc_default=0.6, p_hyphen_tokens=0.3))
    n = ctx.n(1500, 30000)
    spaces = {k: option_space(k) for k in KINDS}
    tmpdir = tempfile.mkdtemp(prefix="dtverif-c06-")
    try:
        for i in range(n):
            ir, feat = g.ir()
            ira, feata = ga.ir()
            irf, featf = gf.ir()
            for kind in KINDS:
                use_ir, use_feat = (ira, feata) if kind == "argparse" else ((irf, featf) if kind in ("function", "method") and i % 2 else (ir, feat))
                opts = dict(spaces[kind][(i * 5 + ctx.shard[0]) % len(spaces[kind])])
                ctx.case(shape_signature(use_feat, (kind, tuple(sorted(opts.items())))),
                         nontrivial=use_feat["n_params"] > 0 or use_feat["has_return"] or use_feat["kwargs"],
                         sample={"kind": kind, "opts": opts, "ir": ir_jsonable(use_ir)}, sample_key=kind)
                ctx.feature("kind=" + kind)
                one(ctx, kind, use_ir, use_feat, opts, tmpdir, with_black=(i % 10 == 0))
    finally:
        shutil.rmtree(tmpdir, ignore_errors=True)


def replay(payload):
    from ..runner import Ctx

    rp = payload["replay"]
    ctx = Ctx(PROPERTY, "quick", 0)
    ctx.case(("replay",))
    tmpdir = tempfile.mkdtemp(prefix="dtverif-c06-")
    try:
        one(ctx, rp["kind"], ir_from_jsonable(rp["ir"]), rp["feat"], rp["opts"], tmpdir, True)
    finally:
        shutil.rmtree(tmpdir, ignore_errors=True)
    return ctx
