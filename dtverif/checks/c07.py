"""C07 -- parsing source code is faithful to Python's own view of it.

E: parse.function(FunctionDef) / parse.class_(ClassDef, merge_inner_function='__init__') /
   the in-memory variants on imported objects -> IR; and inspect.signature of the same
   definition after exec.
O: multiset of IR parameter names = signature parameters minus self/cls; per parameter the
   default equals the signature default (literal -> same value and type, else quoted
   source), type = documented type if the docstring gives one else the annotation source;
   prose tag on the parameter it names; order = signature order; identical result in fresh
   processes under a PYTHONHASHSEED sweep.
"""
import ast
import importlib
import inspect
import os
import shutil
import subprocess
import sys
import tempfile

from .. import env
from ..canon import ABSENT, canon_default, canon_typ, tags_in
from ..gen_py import gen_class_with_init, gen_function

PROPERTY = "C07"
LEVEL = "exploration"
SHARDS = {"quick": 4, "thorough": 16}
TIMEOUT = {"quick": 900, "thorough": 3400}
OP = "parse_source"
RULE = (
    "generated user-style definitions (gen_py: positional / keyword-only / **kwargs parameters, annotations and defaults "
    "on random subsets, docstrings in rest/numpydoc/google documenting all/some/none of the parameters in or out of "
    "signature order, kinds static/self/cls, and classes merged with __init__) parsed by the real parse.function / "
    "parse.class_ and compared with inspect.signature of the executed definition; in-memory variants via imported "
    "modules; a PYTHONHASHSEED sweep in fresh processes compares digests of the parsed IRs; non-trivial = at least one "
    "parameter; distinct = distinct (kinds of parameters, defaults, annotations, documented subset, order, style)"
)
ASSUMPTIONS = [
    "supported subset only: no positional-only parameters, no *args, no decorators",
    "numpydoc/Google docstrings follow the layout of the repository's own mocks (typed entries)",
    "held = held on the executions observed",
]
ANCHORS = [
    ("doctrans/parse.py", "function"),
    ("doctrans/parse.py", "class_"),
    ("doctrans/parse.py", "_merge_inner_function"),
    ("doctrans/parse.py", "_inspect"),
    ("doctrans/parser_utils.py", "ir_merge"),
    ("doctrans/parser_utils.py", "_inspect_process_ir_param"),
    ("doctrans/ast_utils.py", "func_arg2param"),
]


def exec_ns():
    from .c06 import namespace

    return namespace()


def expected_default(p):
    """canonical forms acceptable for signature default source `p['default_src']`."""
    src = p["default_src"]
    if src is None:
        return [("absent",)]
    try:
        v = ast.literal_eval(src)
        if isinstance(v, (list, tuple, dict)):
            # a literal collection: the evaluated object or its quoted source
            return [canon_default(v), canon_default("```{}```".format(src))]
        return [canon_default("```(None)```" if v is None else v)]
    except ValueError:
        return [canon_default("```{}```".format(src))]


def pfeat(p, spec):
    return {
        "param_kind": p["kind"], "default_class": p["default_class"], "annotated": p["annotation"] is not None,
        "documented": p["documented"], "doc_typ": p.get("doc_typ") is not None,
        "doc_states_default": p.get("doc_states_default", False),
        "some_doc_states_default": any(q.get("doc_states_default") for q in spec.params),
    }


def check_ir(ctx, base, replay, spec, ir, sig_names, via, cvars=(), declared=()):
    params = spec.params
    byname = {p["name"]: p for p in params}
    got = list((ir.get("params") or {}).keys())
    ctx.event("ir_checked:" + via)
    for n in sig_names:
        if got.count(n) != 1:
            ctx.report(dict(base, **pfeat(byname[n], spec), field="param", tag="missing" if n not in got else "duplicated",
                            param=n, expected=str(sig_names), observed=str(got)), replay)
    for n in got:
        if n not in sig_names:
            ctx.report(dict(base, field="param", tag="extra", param=n, param_kind="unknown", expected=str(sig_names), observed=str(got)), replay)
    # class + __init__ merge: entries documented at class level come first (class docstring
    # order); the relative order of all the others must be that of the signature
    # (attributes declared in the class body are class-level entries too: they precede __init__ in the source)
    class_level = set(cvars) | set(declared)
    common_e = [n for n in sig_names if n in got and n not in class_level]
    common_o = [n for n in got if n in sig_names and n not in class_level]
    if common_e != common_o:
        first = next(a for a, b in zip(common_e, common_o) if a != b)
        ctx.report(dict(base, **pfeat(byname[first], spec), field="order", tag="reordered", param=first,
                        expected=str(common_e), observed=str(common_o)), replay)
    all_tags = {"zq_" + p["name"]: p["name"] for p in params}
    for n in [m for m in sig_names if m in got and m not in cvars]:
        p, q = byname[n], ir["params"][n]
        f = pfeat(p, spec)
        f["declared_in_class_body"] = n in declared
        idx = [x["name"] for x in params].index(n)
        f["after_doc_stated_default"] = any(x.get("doc_states_default") for x in params[:idx])
        # default
        od = canon_default(q.get("default", ABSENT))
        acc = expected_default(p)
        if p["kind"] == "kwargs":
            acc = [("none",), ("absent",)]
        if od not in acc:
            ctx.report(dict(base, **f, field="default", tag="{}->{}".format(acc[0][0], od[0]), param=n,
                            expected=repr(p["default_src"]), observed=repr(q.get("default", ABSENT))[:200]), replay)
        # type: documented type wins, else annotation
        want = p.get("doc_typ") or p["annotation"]
        if p["kind"] == "kwargs":
            accept = [canon_typ("Optional[dict]"), canon_typ(want) if want else None, None]
        else:
            accept = [canon_typ(want)]
            if want is None and p["default_src"] is not None:
                # untyped: the type of a literal default may be inferred (documented behaviour of infer)
                try:
                    v = ast.literal_eval(p["default_src"])
                    if v is not None:
                        accept.append(canon_typ(type(v).__name__))
                except ValueError:
                    pass
        if canon_typ(q.get("typ")) not in accept:
            ctx.report(dict(base, **f, field="typ", tag="lost" if q.get("typ") is None else ("invented" if want is None else "changed"),
                            param=n, expected=repr(want), observed=repr(q.get("typ"))), replay)
        # prose
        seen = tags_in(q.get("doc"))
        mine = "zq_" + n
        if p["documented"] and mine not in seen and n not in cvars:
            ctx.report(dict(base, **f, field="doc", tag="tag_lost", param=n, expected=p["doc"], observed=repr(q.get("doc"))), replay)
        foreign = {t for t in seen if t != mine and t in all_tags}
        if foreign:
            ctx.report(dict(base, **f, field="doc", tag="foreign_tag", param=n, expected=repr(p.get("doc")), observed=repr(q.get("doc"))), replay)
        if not p["documented"] and q.get("doc") and n not in cvars:
            ctx.report(dict(base, **f, field="doc", tag="invented", param=n, expected="None", observed=repr(q.get("doc"))), replay)


def spec_sig(spec):
    return tuple((p["kind"], p["default_class"], p["annotation"] is not None, p["documented"], p.get("doc_typ") is not None) for p in spec.params) + (
        spec.kind, spec.style, spec.doc_mode, spec.order)


def one_function(ctx, spec, via="ast"):
    from doctrans import parse

    base = {"op": OP, "kind": "function", "via": via, "fn_kind": spec.kind, "doc_style": spec.style, "doc_mode": spec.doc_mode,
            "doc_order": spec.order, "has_doc": spec.has_doc,
            "partial_pos_defaults": _partial(spec),
            "some_doc_states_default": any(p.get("doc_states_default") for p in spec.params)}
    replay = {"src": spec.src, "spec": {k: v for k, v in spec.items() if k != "src"}, "via": via}
    ns = exec_ns()
    exec(compile(spec.src, "<generated>", "exec"), ns)
    fn = ns[spec.name]
    sig_names = [n for n in inspect.signature(fn).parameters if n not in ("self", "cls")]
    ctx.event("signature_observed")
    try:
        ir = parse.function(ast.parse(spec.src).body[0])
    except Exception as e:
        ctx.report_exception(e, base, replay, stage="parse")
        return
    ctx.event("parse.function")
    check_ir(ctx, base, replay, spec, ir, sig_names, via)
    if ir.get("type") != spec.kind:
        ctx.report(dict(base, field="function_type", tag="changed", expected=spec.kind, observed=ir.get("type")), replay)


def _partial(spec):
    pos = [p for p in spec.params if p["kind"] == "pos"]
    nd = sum(1 for p in pos if p["default_src"] is not None)
    return 0 < nd < len(pos)


def one_class(ctx, cspec):
    from doctrans import parse

    spec = cspec.init
    inner = cspec.get("inner_name", "__init__")
    base = {"op": OP, "kind": "class_init", "via": "ast", "fn_kind": spec.kind, "merged_function": "__init__" if inner == "__init__" else "other", "doc_style": spec.style, "doc_mode": spec.doc_mode,
            "doc_order": spec.order, "has_doc": spec.has_doc, "partial_pos_defaults": _partial(spec)}
    replay = {"src": cspec.src, "spec": {k: v for k, v in spec.items() if k != "src"}, "via": "class", "cvars": list(cspec.cvars),
              "declared": list(cspec.get("declared", ())), "inner_name": inner}
    ns = exec_ns()
    exec(compile(cspec.src, "<generated>", "exec"), ns)
    sig_names = [n for n in inspect.signature(getattr(ns[cspec.name], inner)).parameters if n not in ("self", "cls")]
    try:
        ir = parse.class_(ast.parse(cspec.src).body[0], merge_inner_function=inner)
    except Exception as e:
        ctx.report_exception(e, base, replay, stage="parse")
        return
    ctx.event("parse.class_merge")
    ctx.feature("class_merged_with={}/{}".format("__init__" if inner == "__init__" else "other", spec.kind))
    ctx.feature("class_cvars={}".format(min(len(cspec.cvars), 3)))
    check_ir(ctx, base, replay, spec, ir, sig_names, "class_merge", cvars=tuple(cspec.cvars), declared=tuple(cspec.get("declared", ())))
    if cspec.get("declared"):
        ctx.feature("class_declares_attributes_without_value")


def in_memory(ctx, specs, tmpdir, cspecs=()):
    """Write generated definitions to a scratch module, import it, parse the live objects."""
    from doctrans import parse

    modname = "zq_mem_{}_{}".format(os.getpid(), ctx.evaluations)
    header = "from typing import *\nimport json\n\nclass _S(type):\n    def __call__(c,*a,**k): return None\n    def __getattr__(c,n):\n        if n.startswith('__'): raise AttributeError(n)\n        return _S(n,(),{})\nnp=_S('np',(),{})\ntf=_S('tf',(),{})\ntorch=_S('torch',(),{})\npathlib=_S('pathlib',(),{})\ndef make_thing(*a): return None\n\n"
    static = [s for s in specs if s.kind == "static"]
    future = ctx.evaluations % 2 == 1
    if future:
        # annotations are plain strings in such a module
        header = "from __future__ import annotations\n" + header
        ctx.feature("live_objects_from_a_module_with_future_annotations")
    src = header + "\n\n".join(s.src.replace("def f_target(", "def f_target_{}(".format(i)) for i, s in enumerate(static))
    for j, c in enumerate(cspecs):
        src += "\n\n" + c.src.replace("class {}(".format(c.name), "class {}_{}(".format(c.name, j), 1)
    with open(os.path.join(tmpdir, modname + ".py"), "w") as f:
        f.write(src)
    sys.path.insert(0, tmpdir)
    try:
        mod = importlib.import_module(modname)
        for i, s in enumerate(static):
            fn = getattr(mod, "f_target_{}".format(i))
            base = {"op": OP, "kind": "function", "via": "memory", "fn_kind": s.kind, "doc_style": s.style, "doc_mode": s.doc_mode,
                    "doc_order": s.order, "has_doc": s.has_doc, "partial_pos_defaults": _partial(s),
                    "some_doc_states_default": any(p.get("doc_states_default") for p in s.params), "future_annotations": future}
            replay = {"src": s.src, "via": "memory"}
            ctx.case(spec_sig(s) + ("memory",), nontrivial=bool(s.params))
            try:
                ir = parse.function(fn)
            except Exception as e:
                ctx.report_exception(e, base, replay, stage="parse")
                continue
            ctx.event("parse.function.in_memory")
            sig_names = list(inspect.signature(fn).parameters)
            check_ir(ctx, base, replay, s, ir, sig_names, "memory")
        for j, c in enumerate(cspecs):
            cls = getattr(mod, "{}_{}".format(c.name, j))
            spec = c.init
            base = {"op": OP, "kind": "class_init", "via": "memory", "fn_kind": "self", "doc_style": spec.style, "doc_mode": spec.doc_mode,
                    "doc_order": spec.order, "has_doc": spec.has_doc, "partial_pos_defaults": _partial(spec),
                    "some_doc_states_default": any(p.get("doc_states_default") for p in spec.params)}
            replay = {"src": c.src, "via": "memory_class"}
            ctx.case(spec_sig(spec) + ("memory_class",), nontrivial=bool(spec.params))
            try:
                ir = parse.class_(cls, merge_inner_function="__init__")
            except Exception as e:
                ctx.report_exception(e, base, replay, stage="parse")
                continue
            ctx.event("parse.class_.in_memory")
            sig_names = [n for n in inspect.signature(cls.__init__).parameters if n not in ("self", "cls")]
            check_ir(ctx, base, replay, spec, ir, sig_names, "memory", cvars=tuple(c.cvars), declared=tuple(c.get("declared", ())))
    finally:
        sys.path.remove(tmpdir)
        sys.modules.pop(modname, None)


def hash_seed_sweep(ctx, n_defs, seeds):
    """Fresh processes under different PYTHONHASHSEED values must print identical digests."""
    outs = {}
    procs = []
    for hs in seeds:
        cmd = [sys.executable, "-m", "dtverif.workers.parse_worker", str(ctx.seed * 1000 + ctx.shard[0]), str(n_defs)]
        procs.append((hs, subprocess.Popen(cmd, cwd=env.ROOT, env=env.child_env({"PYTHONHASHSEED": str(hs)}),
                                           stdout=subprocess.PIPE, stderr=subprocess.PIPE, text=True)))
    for hs, p in procs:
        try:
            out, err = p.communicate(timeout=600)
        except subprocess.TimeoutExpired:
            p.kill()
            ctx.inconclusive.append("hash-seed worker {} timed out".format(hs))
            continue
        if p.returncode != 0:
            ctx.inconclusive.append("hash-seed worker {} failed: {}".format(hs, err[-300:]))
            continue
        outs[hs] = dict(l.split(" ", 1) for l in out.strip().split("\n") if l)
        ctx.event("hash_seed_processes")
    ref_seed = seeds[0]
    if ref_seed not in outs:
        return
    for hs, lines in outs.items():
        for cid, dig in outs[ref_seed].items():
            ctx.event("hash_seed_digests_compared")
            if lines.get(cid) != dig:
                ctx.report({"op": "hash_seed_sweep", "field": "nondeterminism", "tag": "differs_across_hash_seeds",
                            "case": cid, "expected": "{}@seed{}".format(dig[:60], ref_seed), "observed": "{}@seed{}".format(str(lines.get(cid))[:60], hs)},
                           {"worker": "parse_worker", "gen_seed": ctx.seed * 1000 + ctx.shard[0], "case": cid, "hash_seeds": [ref_seed, hs]})
                break


def run(ctx):
    ctx.require("parse.function", 50)
    ctx.require("parse.class_merge", 10)
    ctx.require("signature_observed", 50)
    ctx.require("hash_seed_digests_compared", 50)
    n = ctx.n(800, 24000)
    mem_batch, mem_classes = [], []
    tmpdir = tempfile.mkdtemp(prefix="dtverif-c07-")
    try:
        for i in range(n):
            spec = gen_function(ctx.rng, force_partial_defaults=(i % 4 == 0), p_default_sentence=0.5 if i % 3 == 2 else 0.0)
            ctx.case(spec_sig(spec), nontrivial=bool(spec.params),
                     sample={"src": spec.src, "doc_mode": spec.doc_mode, "order": spec.order, "style": spec.style},
                     sample_key=(spec.style, spec.doc_mode))
            ctx.feature("style=" + spec.style)
            ctx.feature("doc_mode=" + spec.doc_mode)
            ctx.feature("order=" + spec.order)
            ctx.feature("fn_kind=" + spec.kind)
            if _partial(spec):
                ctx.feature("partial_positional_defaults")
            one_function(ctx, spec)
            if i % 5 == 0:
                cspec = gen_class_with_init(ctx.rng)
                ctx.case(spec_sig(cspec.init) + ("class",), nontrivial=bool(cspec.init.params))
                one_class(ctx, cspec)
                mem_classes.append(cspec)
            if i % 10 == 5:
                # the merge is not tied to __init__: a static / class / instance method named otherwise
                cspec = gen_class_with_init(ctx.rng, inner_name="build_zq", inner_kind=("static", "cls", "self")[(i // 10) % 3])
                cspec["inner_name"] = "build_zq"
                ctx.case(spec_sig(cspec.init) + ("class_other",), nontrivial=bool(cspec.init.params))
                one_class(ctx, cspec)
            if not ctx.quick() or i % 4 == 0:
                mem_batch.append(spec)
            if len(mem_batch) >= 40:
                in_memory(ctx, mem_batch, tmpdir, mem_classes)
                mem_batch, mem_classes = [], []
        if mem_batch or mem_classes:
            in_memory(ctx, mem_batch, tmpdir, mem_classes)
    finally:
        shutil.rmtree(tmpdir, ignore_errors=True)
    if ctx.shard[0] == 0:
        seeds = [0, 1, 2, 3, 4, 5, 6, 7, "random"] if ctx.quick() else list(range(0, 32)) + ["random"]
        hash_seed_sweep(ctx, 100 if ctx.quick() else 1000, seeds)
    else:
        ctx.requirements.pop("hash_seed_digests_compared", None)


def replay(payload):
    from ..runner import Ctx
    from ..gen_py import FuncSpec

    rp = payload["replay"]
    ctx = Ctx(PROPERTY, "quick", 0)
    ctx.case(("replay",))
    if "spec" in rp:
        spec = FuncSpec(rp["spec"], src=rp["src"])
        if rp.get("via") == "class":
            one_class(ctx, FuncSpec(src=rp["src"], init=spec, name="C_target", cvars=rp.get("cvars", []), declared=rp.get("declared", []),
                                    inner_name=rp.get("inner_name", "__init__")))
        else:
            one_function(ctx, spec)
    return ctx
