"""C08 -- conversion is a normalisation that stabilises after one pass.

E: t1 = emit(ir), t2 = emit(parse(t1)), t3 = emit(parse(t2)) [, t4] per kind and option set
O: t2 == t3 byte-for-byte (and t3 == t4).
"""
import difflib
import re

from ..gen_ir import IRGen, case_flags, ir_copy, ir_jsonable, ir_from_jsonable, knobs, shape_signature
from ..canon import compare
from ..kinds import ALL_KINDS, DOC_KINDS, emit_kind, option_space, parse_kind, table_for
from ..roundtrip import case_base

PROPERTY = "C08"
LEVEL = "exploration"
SHARDS = {"quick": 6, "thorough": 16}
TIMEOUT = {"quick": 900, "thorough": 3400}
OP = "stabilise"
RULE = (
    "seeded IR generator x kind{rest,numpydoc,google,class,function,method,argparse} x emitter option combination "
    "(cycled); one evaluation = the chain emit,parse,emit,parse,emit(,parse,emit) on the real code; the 2nd and 3rd "
    "(and 4th) emitted texts are compared byte-for-byte; non-trivial = the first emission parsed (so a 2nd emission "
    "exists) and the IR has a parameter or return entry; distinct = distinct (shape signature, kind, options)"
)
ASSUMPTIONS = [
    "held = held on the executions observed",
    "a failure of the very first emit/parse is C01-C04's subject and only counted here; failures of later passes are reported",
]
ANCHORS = [
    ("doctrans/defaults_utils.py", "set_default_doc"),
    ("doctrans/pure_utils.py", "quote"),
    ("doctrans/pure_utils.py", "unquote"),
    ("doctrans/emitter_utils.py", "to_docstring"),
    ("doctrans/emit.py", "docstring"),
]


def _strip_internal(ir):
    return ir


def drift_tag(a, b):
    """Mechanism tag for the first differing region between two texts."""
    la, lb = a.split("\n"), b.split("\n")
    sm = difflib.SequenceMatcher(None, la, lb, autojunk=False)
    for op, i1, i2, j1, j2 in sm.get_opcodes():
        if op == "equal":
            continue
        x = "\n".join(la[i1:i2])
        y = "\n".join(lb[j1:j2])
        if op == "insert":
            return "line_added", y
        if op == "delete":
            return "line_removed", x
        if x.rstrip() == y.rstrip():
            return "trailing_whitespace", x
        if x.strip() == y.strip():
            return "indentation", x
        if y.replace(x.strip(), "") in (".",) or (len(y) == len(x) + 1 and y.replace("..", ".") == x):
            return "full_stop_added", x
        if x.replace("'", "").replace('"', "") == y.replace("'", "").replace('"', ""):
            return "quotes_changed", x
        if x.replace("`", "") == y.replace("`", ""):
            return "backticks_changed", x
        if " ".join(x.split()) == " ".join(y.split()):
            return "whitespace_inside", x
        return "content_changed", x + " => " + y
    return "none", ""


def one(ctx, kind, ir, feat, opts, passes):
    base = case_base(OP, kind, ir, feat, opts)
    replay = {"ir": ir_jsonable(ir), "feat": feat, "kind": kind, "opts": opts, "passes": passes}
    texts = []
    cur = ir_copy(ir)
    for k in range(passes):
        try:
            t = emit_kind(kind, cur, opts)
        except Exception as e:
            if k == 0:
                ctx.event("first_pass_failed")
                return
            ctx.report_exception(e, base, dict(replay, texts=texts), stage="emit{}".format(k + 1))
            return
        texts.append(t)
        if k == passes - 1:
            break
        try:
            cur = parse_kind(kind, t, opts)
        except Exception as e:
            if k == 0:
                ctx.event("first_pass_failed")
                return
            ctx.report_exception(e, base, dict(replay, texts=texts), stage="parse{}".format(k + 1))
            return
        if k == 0:
            # was the first pass faithful?  (C01-C04's oracle, C01-C04's known findings)
            prop1 = "C01" if kind in DOC_KINDS else {"class": "C02", "function": "C03", "method": "C03", "argparse": "C04"}[kind]
            op1 = {"C01": "roundtrip_docstring", "C02": "roundtrip_class", "C03": "roundtrip_function", "C04": "roundtrip_argparse"}[prop1]
            b1 = dict(base, op=op1)
            ids = set()
            for d in compare(ir, cur, feat, table_for(kind, opts), b1):
                ids.add(ctx.findings.classify(prop1, d) or "UNLISTED:{}:{}".format(d.get("field"), d.get("tag")))
            base["first_pass_lossy"] = bool(ids)
            base["first_pass_findings"] = sorted(ids)
            ctx.event("first_pass_lossy" if ids else "first_pass_faithful")
    ctx.event("chains_completed")
    ctx.event("chains:" + kind)
    for k in range(1, passes - 1):
        if texts[k] != texts[k + 1]:
            tag, where = drift_tag(texts[k], texts[k + 1])
            # attribute to a parameter when its name occurs in the differing region
            # the entry the differing line belongs to (":param lr: ...", "lr : str", "  lr (str): ...", "lr: str = ..."), else any name in it
            pname = next((n for n in feat["params"] if re.search(r"(?:^|\n)\s*(?::(?:param|cvar|type)\s+)?{}\s*[:(=]".format(re.escape(n)), where)), None) or \
                next((n for n in feat["params"] if re.search(r"\b{}\b".format(re.escape(n)), where)), None)
            if pname is None and "return" in where.lower():
                pf = feat["ret"]
            else:
                pf = feat["params"].get(pname)
            d = dict(base, field="drift", tag=tag, between="t{}->t{}".format(k + 1, k + 2), param=pname,
                     expected=where[:300], observed="")
            if pf:
                d.update(typ_class=pf["typ_class"], default_class=pf["default_class"], doc_class=pf["doc_class"],
                         param_kind=pf["kind"])
            ctx.report(d, dict(replay, texts=texts))
            break


def run(ctx):
    ctx.require("chains_completed", 50)
    for k in ALL_KINDS:
        ctx.require("chains:" + k, 5)
    g = IRGen(ctx.rng, knobs(hostile_strings=not ctx.quick(), p_doc_states_default=0.15, p_hyphen_tokens=0.3, p_return_literal_source=0.2))
    ga = IRGen(ctx.rng, knobs(hostile_strings=not ctx.quick(), argparse_domain=True, p_doc_states_default=0.15, p_hyphen_tokens=0.3))
    n = ctx.n(1200, 30000)
    spaces = {k: option_space(k) for k in ALL_KINDS}
    passes = 3 if ctx.quick() else 4
    for i in range(n):
        ir, feat = g.ir()
        ira, feata = ga.ir()
        for kind in ALL_KINDS:
            use_ir, use_feat = (ira, feata) if kind == "argparse" else (ir, feat)
            opts = dict(spaces[kind][(i * 5 + ctx.shard[0]) % len(spaces[kind])])
            if kind in ("rest", "numpydoc", "google"):
                opts["parse_emit_default_doc"] = False  # IR prose without the default sentence, as sync uses it
            ctx.case(shape_signature(use_feat, (kind, tuple(sorted(opts.items())))),
                     nontrivial=use_feat["n_params"] > 0 or use_feat["has_return"] or use_feat["kwargs"],
                     sample={"kind": kind, "opts": opts, "ir": ir_jsonable(use_ir)}, sample_key=kind)
            ctx.feature("kind=" + kind)
            one(ctx, kind, use_ir, use_feat, opts, passes)


def replay(payload):
    from ..runner import Ctx

    rp = payload["replay"]
    ctx = Ctx(PROPERTY, "quick", 0)
    ctx.case(("replay",))
    one(ctx, rp["kind"], ir_from_jsonable(rp["ir"]), rp["feat"], rp["opts"], rp.get("passes", 3))
    return ctx
