#!/venv/bin/python
"""Merge witness records into tools/witnessed.json.
usage: witness_merge.py <witnessed.json | evidence-dir> ...   (evidence dirs: known_findings_seen of every C*.json)"""
import glob, json, os, sys
HERE = os.path.dirname(os.path.abspath(__file__))
out = os.path.join(HERE, 'witnessed.json')
acc = json.load(open(out)) if os.path.exists(out) else {}
for src in sys.argv[1:]:
    if os.path.isdir(src):
        for f in glob.glob(os.path.join(src, 'C*.json')):
            d = json.load(open(f))
            for fid, n in d['coverage'].get('known_findings_seen', {}).items():
                acc.setdefault(d['property_id'], {})
                acc[d['property_id']][fid] = acc[d['property_id']].get(fid, 0) + n
    else:
        for p, m in json.load(open(src)).items():
            for fid, n in m.items():
                acc.setdefault(p, {})
                acc[p][fid] = acc[p].get(fid, 0) + n
json.dump(acc, open(out, 'w'), indent=1, sort_keys=True)
print({p: len(m) for p, m in sorted(acc.items())})
