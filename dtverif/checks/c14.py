"""C14 -- sync_properties changes exactly the addressed property.

E: bytes of the input file before/after; ast of the output file before/after; exception.
O: input byte-identical; output parses; for each pair the node at the output address
   (independent resolver) now carries the input node's annotation (wrapped by the template,
   or Literal[...] of the evaluated values in eval mode); every other node identical; all
   pairs applied; an address the reference resolver cannot resolve => exception and the
   output file unchanged.
"""
import ast
import copy
import hashlib
import os
import shutil
import tempfile

from ..gen_py import gen_module
from ..refmodels import resolve
from .c15 import ambiguous, loc_features
from .c06 import _norm_docstrings

PROPERTY = "C14"
LEVEL = "exploration"
SHARDS = {"quick": 8, "thorough": 16}
TIMEOUT = {"quick": 900, "thorough": 3400}
OP = "sync_properties"
RULE = (
    "a third of the calls address an input setting named like the output argument (value-carrying reference accepted for the addressed argument only); generated pairs of modules (gen_py.gen_module) x addressable locations (module-level annotated assignment, class "
    "attribute, function argument, method argument, keyword-only argument) chosen in both files, 1..3 pairs per call, "
    "with/without wrap template, eval mode on module-level tuples, plus unresolvable addresses; one evaluation = one "
    "sync_properties call on real files; the expected output tree is built by an independent reference replacement; "
    "non-trivial = every pair resolvable by the reference; distinct = distinct (module pair index, addresses, options)"
)
ASSUMPTIONS = [
    "the independent resolver/replacement (refmodels) defines 'the addressed node'",
    "trees are compared modulo docstring re-indentation (documented behaviour of ast_parse, checked by C11/C10)",
    "held = held on the executions observed",
]
ANCHORS = [
    ("doctrans/sync_properties.py", "sync_properties"),
    ("doctrans/sync_properties.py", "sync_property"),
    ("doctrans/ast_utils.py", "RewriteAtQuery.visit_FunctionDef"),
    ("doctrans/ast_utils.py", "RewriteAtQuery.generic_visit"),
]

ARG_KINDS = ("arg", "method_arg", "kwarg", "method_kwarg")
ANN_KINDS = ("annassign", "attr_annassign")


def sha(path):
    with open(path, "rb") as f:
        return hashlib.sha256(f.read()).hexdigest()


def expected_tree(out_src, in_src, pairs, wrap, evalmode, eval_values, carry_value=False):
    """Reference implementation of the property's statement.
    carry_value: an annotated assignment WITH a value that replaces a positional argument of the same name also hands
    its value over as that argument's default (when the argument has one) -- "replaced by the one addressed in the input"."""
    out_tree = ast.parse(out_src)
    in_tree = ast.parse(in_src)
    for ipath, opath in pairs:
        onode, oparent, okind = resolve(opath, out_tree)
        if onode is None:
            return None
        if evalmode:
            vals = eval_values[ipath[0]]
            ann = ast.parse("Literal[{}]".format(", ".join(repr(v) for v in vals))).body[0].value
            new_name = opath[-1]
        else:
            inode, _, ikind = resolve(ipath, in_tree)
            if inode is None:
                return None
            ann = copy.deepcopy(inode.annotation) if getattr(inode, "annotation", None) is not None else None
            new_name = ipath[-1]
            if ann is not None and wrap:
                ann = ast.parse(wrap.format(output_param=ast.unparse(ann))).body[0].value
        if okind in ("arg", "kwonlyarg"):
            lst = oparent.args.args if okind == "arg" else oparent.args.kwonlyargs
            if (carry_value and not evalmode and okind == "arg" and isinstance(inode, ast.AnnAssign) and inode.value is not None
                    and new_name == onode.arg):
                k = lst.index(onode) - (len(lst) - len(oparent.args.defaults))
                if k >= 0:
                    oparent.args.defaults[k] = copy.deepcopy(inode.value)
            lst[lst.index(onode)] = ast.arg(arg=new_name, annotation=ann)
        else:
            inode2 = copy.deepcopy(resolve(ipath, in_tree)[0]) if not evalmode else ast.AnnAssign(
                target=ast.Name(new_name, ast.Store()), annotation=ann, value=None, simple=1)
            if not evalmode and wrap and getattr(inode2, "annotation", None) is not None:
                inode2.annotation = ann
            body = oparent.body
            body[body.index(onode)] = inode2
    return ast.fix_missing_locations(out_tree)


def pick_locs(rng, locs, tree, kinds):
    cands = [l for l in locs if l["kind"] in kinds and not ambiguous(l, locs)]
    return cands


def one(ctx, i, tmpdir):
    from doctrans.sync_properties import sync_properties

    rng = ctx.case_rng(i)
    min_ = gen_module(rng)
    mout = gen_module(rng)
    if i % 6 == 4:
        # input and output are two copies of the same module text (two versions of one file):
        # an output address of a later pair may then be the input address of an earlier one
        mout = copy.deepcopy(min_)
    in_src, out_src = min_["src"], mout["src"]
    in_tree, out_tree = ast.parse(in_src), ast.parse(out_src)
    evalmode = i % 7 == 3
    # (the two-copies-of-one-module cases, i % 6 == 4, would otherwise always carry a template)
    wrap_on = (i % 3 == 1 and i % 6 != 4) or (i % 6 == 4 and (i // 6) % 2 == 0)
    # templates: an ordinary one, the identity (over a quoted forward reference the result is one bare string), a quoted one
    wrap = ("Optional[Union[{output_param}, str]]", "{output_param}", '"Optional[{output_param}]"')[(i // 3) % 3] if (wrap_on and not evalmode) else None
    eval_values = {}
    if evalmode:
        vals = tuple(sorted("{}_zq{}".format(c, (i // 7) % 5) for c in "bac"))
        in_src = "from typing import Optional, List\nzq_vals = tuple(sorted({!r}))\n".format(tuple(reversed(vals))) + in_src
        eval_values["zq_vals"] = vals
        if (i // 7) % 3 == 1:
            # evaluated values that repeat, and values that are equal but of different types (0 / False, 1 / True)
            vals = (0, 1, 2, False, True, 2)
            in_src = "from typing import Optional, List\nzq_vals = (0, 1, 2, False, True, 2)\n" + min_["src"]
            eval_values["zq_vals"] = vals
        in_tree = ast.parse(in_src)
    n_pairs = 1 + (i % 3 if not evalmode else 0)
    chained_mode = i % 6 == 4 and not evalmode
    if chained_mode:
        n_pairs = 2 + (i // 6) % 2  # copies of one module: chained addresses need several pairs
    # candidate locations: annotated things in the input, args/annotated assignments in the output
    in_args = [l for l in pick_locs(rng, min_["locations"], in_tree, ARG_KINDS + ANN_KINDS)
               if l["kind"] not in ("kwarg", "method_kwarg")]
    out_args = pick_locs(rng, mout["locations"], out_tree, ARG_KINDS)
    out_anns = pick_locs(rng, mout["locations"], out_tree, ANN_KINDS)
    pairs, feats = [], []
    used_out = set()
    bad_address = i % 11 == 5
    for _ in range(n_pairs):
        if evalmode:
            ipath, il = ["zq_vals"], {"kind": "annassign", "path": ["zq_vals"]}
            cand_out = out_args
        else:
            if not in_args:
                break
            il = rng.choice(in_args)
            ipath = il["path"]
            cand_out = out_args if il["kind"] in ARG_KINDS or rng.random() < 0.5 else out_anns
            if il["kind"] in ARG_KINDS:
                cand_out = out_args
            elif chained_mode:
                # chained addresses among attributes / settings: the copy that an earlier pair spliced in keeps the
                # label it had in the input file; it must not shadow the node a later pair addresses
                cand_out = out_anns
        cand_out = [l for l in cand_out if tuple(l["path"]) not in used_out and tuple(l["path"][:-1]) not in {u[:-1] for u in used_out}]
        if not cand_out:
            break
        again = [l for l in cand_out if l.get("redeclared_in_block")]
        chained = [l for l in cand_out if tuple(l["path"]) in {tuple(p_[0]) for p_ in pairs}]
        earlier = [l for l in cand_out if chained_mode and not pairs and l["path"] != list(ipath) and l.get("lineno", 0) < il.get("lineno", 0)]
        if chained and rng.random() < 0.7:
            ol = rng.choice(chained)
        elif earlier and rng.random() < 0.6:
            ol = rng.choice(earlier)  # the moved copy lands BEFORE the place it came from
        else:
            ol = rng.choice(again) if again and rng.random() < 0.6 else rng.choice(cand_out)
        used_out.add(tuple(ol["path"]))
        pairs.append((list(ipath), list(ol["path"])))
        fi = loc_features(in_tree, il) if not evalmode else {"func_precedes": False, "depth": 1, "target_kind": "annassign"}
        fo = loc_features(out_tree, ol)
        feats.append((fi, fo))
    if not pairs:
        return
    same_name_forced = False
    if not evalmode and rng.random() < 0.35:
        # a setting in the input that carries the NAME of the output argument it replaces (config attribute -> parameter)
        for k_, (ip_, op_) in enumerate(pairs):
            ol_ = next((l for l in mout["locations"] if l["path"] == op_), None)
            top_in = {getattr(getattr(n, "target", None), "id", None) for n in in_tree.body} | \
                     {t.id for n in in_tree.body if isinstance(n, ast.Assign) for t in n.targets if isinstance(t, ast.Name)} | \
                     {getattr(n, "name", None) for n in in_tree.body}
            if ol_ is None or ol_["kind"] not in ("arg", "method_arg") or op_[-1] in top_in:
                continue
            ls_ = in_src.split("\n")
            at_ = 0
            if in_tree.body and isinstance(in_tree.body[0], ast.Expr) and isinstance(getattr(in_tree.body[0], "value", None), ast.Constant) \
                    and isinstance(in_tree.body[0].value.value, str):
                at_ = in_tree.body[0].end_lineno
            ls_.insert(at_, "{}: {} = {}".format(op_[-1], rng.choice(["int", "str", "Optional[int]"]), rng.choice(["41", "'zq_carried'", "-7"])))
            in_src = "\n".join(ls_)
            in_tree = ast.parse(in_src)
            pairs[k_] = ([op_[-1]], op_)
            feats[k_] = (loc_features(in_tree, {"path": [op_[-1]], "kind": "annassign"}), feats[k_][1])
            same_name_forced = True
            break
    bad_input = (i % 11 == 8) and not evalmode
    if bad_address:
        if (i // 11) % 2 and len(pairs[-1][1]) >= 2:
            # a non-existent leading component in front of an otherwise valid address
            pairs[-1] = (pairs[-1][0], ["ZqNoSuchScope"] + pairs[-1][1][1:])
        else:
            pairs[-1] = (pairs[-1][0], pairs[-1][1][:-1] + ["zq_no_such_param"])
    if bad_input:
        # an INPUT address that does not resolve; prefer an assignment/attribute as the output target
        anns = [l for l in out_anns if tuple(l["path"]) not in used_out]
        tgt = list(rng.choice(anns)["path"]) if anns else pairs[-1][1]
        pairs[-1] = (pairs[-1][0][:-1] + ["zq_no_such_input"], tgt)
        wrap = None
        bad_address = True
    in_fn, out_fn = os.path.join(tmpdir, "in_{}.py".format(i)), os.path.join(tmpdir, "out_{}.py".format(i))
    if evalmode:
        # eval-mode cases of one process share ONE input path whose content changes from case to case
        in_fn = os.path.join(tmpdir, "in_eval_shared.py")
    with open(in_fn, "w") as f:
        f.write(in_src)
    with open(out_fn, "w") as f:
        f.write(out_src)
    in_sha, out_sha = sha(in_fn), sha(out_fn)
    def _has_default(tree, path):
        node, parent, kind = resolve(path, tree)
        if kind == "arg":
            pos = parent.args.args
            return pos.index(node) >= len(pos) - len(parent.args.defaults)
        if kind == "kwonlyarg":
            return parent.args.kw_defaults[parent.args.kwonlyargs.index(node)] is not None
        return False

    def _ann_has_value(tree, path):
        node, _, kind = resolve(path, tree)
        return kind == "assign" and isinstance(node, ast.AnnAssign)

    base = {
        "out_arg_has_default": any(_has_default(out_tree, p[1]) for p in pairs if not bad_address),
        "in_is_annassign": evalmode or any(_ann_has_value(in_tree, p[0]) for p in pairs),
        "nested_class_address": any(
            (f["target_kind"].startswith("attr_") and f["depth"] >= 3) or (f["target_kind"].startswith("method_") and f["depth"] >= 4)
            for pair in feats for f in pair),
        "op": OP, "n_pairs": len(pairs), "wrap": wrap is not None, "eval": evalmode, "bad_address": bad_address,
        "in_kinds": sorted({f[0]["target_kind"] for f in feats}), "out_kinds": sorted({f[1]["target_kind"] for f in feats}),
        "in_func_precedes": any(f[0]["func_precedes"] for f in feats), "out_func_precedes": any(f[1]["func_precedes"] for f in feats),
        "in_max_depth": max(f[0]["depth"] for f in feats), "out_max_depth": max(f[1]["depth"] for f in feats),
        "out_has_kwonly": any(f[1]["target_kind"] in ("kwarg", "method_kwarg") for f in feats),
        "later_output_is_earlier_input_address": any(pairs[k][1] in [q[0] for q in pairs[:k]] for k in range(len(pairs))),
        "address_aliased_earlier": any(f.get("alias_before_target") or f.get("same_name_assigned_in_block_before") for pair in feats for f in pair),
        "input_setting_named_like_output_argument": same_name_forced,
        "out_name_assigned_again_in_block": any(l.get("redeclared_in_block") and l["path"] in [p[1] for p in pairs] for l in mout["locations"]),
    }
    replay = {"case": i, "seed": ctx.seed, "tier": ctx.tier, "in_src": in_src, "out_src": out_src, "pairs": pairs, "wrap": wrap, "eval": evalmode}
    ctx.case((i, ctx.shard[0], tuple(map(tuple, (p[1] for p in pairs))), wrap, evalmode), nontrivial=not bad_address,
             sample={"pairs": [[".".join(a), ".".join(b)] for a, b in pairs], "wrap": wrap, "eval": evalmode,
                     "input": in_src[:400], "output": out_src[:400]}, sample_key=(len(pairs), evalmode, bad_address))
    ctx.feature("bad_input_address" if bad_input else ("bad_output_address" if bad_address else "resolvable"))
    base["bad_input"] = bad_input
    ctx.feature("pairs={}".format(len(pairs)))
    if base["later_output_is_earlier_input_address"]:
        ctx.feature("later_output_address_equals_earlier_input_address")
    if base["out_name_assigned_again_in_block"]:
        ctx.feature("output_target_assigned_again_in_a_block")
    ctx.feature("eval" if evalmode else "no_eval")
    ctx.feature("wrap" if wrap else "no_wrap")
    exc = None
    via_cli = (i % 25 == 7) if ctx.quick() else (i % 10 == 7)
    base["via"] = "cli" if via_cli else "api"
    if via_cli:
        import subprocess
        import sys as _sys
        from .. import env as _env

        argv = ["sync_properties", "--input-filename", in_fn, "--output-filename", out_fn]
        for a, b in pairs:
            argv += ["--input-param", ".".join(a), "--output-param", ".".join(b)]
        if evalmode:
            argv.append("--input-eval")
        if wrap:
            argv += ["--output-param-wrap", wrap]
        pr = subprocess.run([_sys.executable, "-m", "dtverif.cli_launcher"] + argv, cwd=_env.ROOT, env=_env.child_env(),
                            capture_output=True, text=True, timeout=120)
        ctx.event("cli_invocations")
        if pr.returncode != 0:
            last = (pr.stderr.strip().split("\n") or [""])[-1]

            class CliFailure(Exception):
                pass

            exc = CliFailure(last[:200])
            base["cli_exit"] = pr.returncode
    else:
        try:
            sync_properties(input_eval=evalmode, input_filename=in_fn, input_params=[".".join(p[0]) for p in pairs],
                            output_filename=out_fn, output_params=[".".join(p[1]) for p in pairs], output_param_wrap=wrap)
        except BaseException as e:  # AssertionError is how the code reports an unresolved address
            exc = e
    ctx.event("sync_properties_calls")
    if sha(in_fn) != in_sha:
        ctx.report(dict(base, field="input_file", tag="modified", expected=in_sha[:12], observed=sha(in_fn)[:12]), replay)
    expect = expected_tree(out_src, in_src, pairs, wrap, evalmode, eval_values)
    if bad_address or expect is None:
        ctx.event("unresolvable_address_cases")
        if exc is None:
            ctx.report(dict(base, field="unresolved_address", tag="no_error_reported", expected="exception", observed="returned normally"), replay)
        if sha(out_fn) != out_sha:
            ctx.report(dict(base, field="unresolved_address", tag="output_modified", expected="unchanged", observed="changed"), replay)
        return
    if exc is not None:
        ctx.report_exception(exc, base, replay, stage="sync")
        if sha(out_fn) != out_sha:
            ctx.report(dict(base, field="failed_call", tag="output_modified", expected="unchanged", observed="changed"), replay)
        return
    try:
        with open(out_fn) as f:
            got = ast.parse(f.read())
    except SyntaxError as e:
        ctx.report(dict(base, field="output_file", tag="does_not_parse", msg=str(e)[:100], expected="", observed=""), replay)
        return
    ctx.event("outputs_compared")
    expect_carried = expected_tree(out_src, in_src, pairs, wrap, evalmode, eval_values, carry_value=True)
    ctx.event("outputs_compared_with_value_carrying_reference" if ast.dump(expect_carried) != ast.dump(expect) else "outputs_compared_single_reference")
    if ast.dump(_norm_docstrings(got)) not in (ast.dump(_norm_docstrings(expect)), ast.dump(_norm_docstrings(expect_carried))):
        # which way did it go wrong?
        unchanged = ast.dump(_norm_docstrings(got)) == ast.dump(_norm_docstrings(ast.parse(out_src)))
        ctx.report(dict(base, field="output_tree", tag="nothing_applied" if unchanged else "differs_from_reference",
                        value_carrying_case=ast.dump(expect_carried) != ast.dump(expect),
                        expected=ast.unparse(expect)[:300], observed=ast.unparse(got)[:300]), replay)


def run(ctx):
    ctx.require("sync_properties_calls", 50)
    ctx.require("outputs_compared", 20)
    ctx.require("unresolvable_address_cases", 5)
    ctx.require("cli_invocations", 3)
    tmpdir = tempfile.mkdtemp(prefix="dtverif-c14-")
    try:
        for j in range(ctx.n(2000, 20000)):
            one(ctx, j * ctx.shard[1] + ctx.shard[0], tmpdir)
            for fn in os.listdir(tmpdir):
                os.unlink(os.path.join(tmpdir, fn))
    finally:
        shutil.rmtree(tmpdir, ignore_errors=True)


def replay(payload):
    from ..runner import Ctx

    rp = payload["replay"]
    ctx = Ctx(PROPERTY, rp.get("tier", "quick"), rp.get("seed", 0))
    tmpdir = tempfile.mkdtemp(prefix="dtverif-c14-")
    try:
        one(ctx, rp["case"], tmpdir)
    finally:
        shutil.rmtree(tmpdir, ignore_errors=True)
    return ctx
