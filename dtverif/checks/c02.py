"""C02 -- config-class round-trip fidelity.

E: emit.class_(ir) -> ClassDef -> to_code -> ast.parse -> parse.class_ -> ir'
O: compare(project_class(ir), ir'): names, order, types, prose, every explicit default with
   its Python type, return entry via `return_type`.  Permitted: undefaulted -> zero/None,
   untyped -> object / type of the default.
"""
from ..gen_ir import knobs
from ..roundtrip import replay_roundtrip, run_kind

PROPERTY = "C02"
LEVEL = "exploration"
SHARDS = {"quick": 4, "thorough": 16}
TIMEOUT = {"quick": 600, "thorough": 3000}
OP = "roundtrip_class"
RULE = (
    "seeded IR generator (gen_ir.IRGen) x emit_default_doc{on,off} x word_wrap{on,off}; one evaluation = one "
    "emit.class_ -> to_code -> ast.parse -> parse.class_ round trip compared field-wise with the input IR; "
    "non-trivial = at least one parameter or a return entry; distinct = distinct shape signature (param count, "
    "per-param type class x default class x has-prose, kwargs, return shape, summary class, options)"
)
ASSUMPTIONS = [
    "held = held on the executions observed",
    "documented normalisations permitted by the table: a parameter without default acquires the zero value of its "
    "scalar type or None; an untyped parameter is annotated `object` or with the type of its default",
]
ANCHORS = [
    ("doctrans/emit.py", "class_"),
    ("doctrans/ast_utils.py", "param2ast"),
    ("doctrans/ast_utils.py", "_generic_param2ast"),
    ("doctrans/parse.py", "class_"),
    ("doctrans/docstring_parsers.py", "_set_name_and_type"),
    ("doctrans/docstring_parsers.py", "_infer_default"),
]


def run(ctx):
    ctx.require("parse.class", 10)
    run_kind(ctx, OP, "class", ctx.n(4000, 120000), knobs(hostile_strings=not ctx.quick(), p_doc_states_default=0.15, p_hyphen_tokens=0.3, p_float_typed_int_default=0.25, p_return_str_value=0.2))


def replay(payload):
    return replay_roundtrip(PROPERTY, OP, payload)
