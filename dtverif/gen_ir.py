"""Seeded generator of interface descriptions (IRs) inside the domain the properties
quantify over, plus a flat feature description of every generated case.

Every prose string carries a tag unique to its parameter (``zq_<name>``) and defaults are
unique per parameter where the type allows, so that re-attribution and loss are directly
observable (no inference needed).
"""
import re
from collections import OrderedDict
from copy import deepcopy

NoneStr = "```(None)```"

NAMES = [
    "dataset_name", "tfds_dir", "K", "as_numpy", "lr", "epochs", "alpha", "momentum",
    "nesterov", "log_dir", "mode", "size", "batch_size", "shuffle", "seed", "path",
    "verbose", "beta_1", "eps", "x", "y0", "loss", "optimizer", "metrics", "n",
    "c", "s", "e", "cl",  # short names (fragments of "self" / "cls")
]
KWARGS_NAMES = ["data_loader_kwargs", "kwargs", "extra_kwargs"]

SCALARS = ("str", "int", "float", "bool")
DOTTED = ("np.ndarray", "tf.data.Dataset", "torch.nn.Module", "pathlib.Path")

WORDS = (
    "number of items to use when the model is being trained on the given dataset with "
    "respect to all of the other settings which were provided by the caller earlier on"
).split()


class Knobs(dict):
    """Probabilities / switches steering the generator (so strata can be defined)."""

    __getattr__ = dict.__getitem__


DEFAULT_KNOBS = Knobs(
    max_params=6,
    p_untyped=0.15,
    p_no_doc=0.15,
    p_no_default=0.35,
    p_none_default=0.12,
    p_kwargs=0.25,
    p_return=0.6,
    p_return_default=0.5,
    p_return_doc=0.8,
    p_return_typ=0.85,
    p_zero_params=0.06,
    p_hostile_doc=0.35,
    p_long_doc=0.15,
    p_return_over_params=0.12,  # the returned expression mentions parameters ("a + b")
    p_scalar_code_default=0.06,  # an int/float/bool (or Optional thereof) whose default is a computed expression
    p_multiline_doc=0.0,  # prose that itself contains a line break (as descriptions parsed from multi-line entries do)
    p_float_typed_int_default=0.0,  # `lr: float = 1`: an integer literal as the default of a float-typed entry
    p_stale_doc_default=0.0,  # prose that states a default states ANOTHER value than the description's own default (stale words)
    p_return_none_default=0.0,  # the returned default expression is None (Optional[...] return)
    p_boundary_doc=0.1,  # prose of an exact length around the wrap width, so that the break falls inside / next to the default sentence
    p_literal_with_spaces=0.0,  # Literal[...] whose second choice is a long phrase with blanks (a :type: line that folds inside a quoted value)
    p_multi_line_summary=0.3,
    p_indented_summary_line=0.0,  # continuation lines of a multi-line summary start with blanks (an indented note / bullet list)
    p_long_summary=0.15,
    hostile_strings=False,  # thorough: strings with interior full stop / quotes
    argparse_domain=False,  # restrict types to what argparse can express
    p_code_default=0.5,  # for types that admit a code default
    p_hyphen_tokens=0.0,  # long prose carries free-standing '-' / '--' tokens and hyphenated words (wrap points of textwrap)
    p_return_str_value=0.0,  # the return entry carries a plain string VALUE as default, one character long half of the time
    p_return_literal_source=0.0,  # the returned expression is a bare literal in source form ('5', "'mnist'")
    p_doc_states_default=0.0,  # prose already carries its "Defaults to X" sentence (as the repository's canonical IR does)
)


def knobs(**over):
    k = Knobs(DEFAULT_KNOBS)
    k.update(over)
    return k


class IRGen:
    def __init__(self, rng, k=None):
        self.r = rng
        self.k = k or DEFAULT_KNOBS
        self._uniq = 0

    # ------------------------------------------------------------------ helpers
    def _u(self):
        self._uniq += 1
        return self._uniq

    def chance(self, p):
        return self.r.random() < p

    def _words(self, n):
        start = self.r.randrange(0, len(WORDS))
        return " ".join(WORDS[(start + i) % len(WORDS)] for i in range(n))

    # ------------------------------------------------------------------ pieces
    def summary(self):
        r = self.r
        if self.chance(self.k.p_long_summary):
            lines = [
                "Acquire zqsum from the official model zoo " + self._words(r.randint(14, 30))
            ]
            cls = "long"
        else:
            lines = ["Acquire zqsum from the official model zoo " + self._words(r.randint(0, 5))]
            cls = "short"
        if self.chance(self.k.p_multi_line_summary):
            for i in range(r.randint(1, 2)):
                lines.append("Second part zqsum{} ".format(i) + self._words(r.randint(1, 8)))
            cls += "_multi"
            if self.k.p_indented_summary_line and self.chance(self.k.p_indented_summary_line):
                lines = lines[:1] + [r.choice(("    ", "  - ")) + l for l in lines[1:]]
                cls += "_indented"
        return "\n".join(l.rstrip() for l in lines), cls

    def prose(self, name):
        """Prose for a parameter, tagged.  Returns (text, doc_class)."""
        r = self.r
        tag = "zq_{}".format(name)
        if self.chance(self.k.p_long_doc):
            text = "the {} setting {} and also {}".format(tag, self._words(r.randint(12, 22)), self._words(r.randint(5, 12)))
            if self.k.p_hyphen_tokens and self.chance(self.k.p_hyphen_tokens):
                ws = text.split(" ")
                for at in sorted(r.sample(range(4, len(ws)), min(4, len(ws) - 4)), reverse=True):
                    ws.insert(at, r.choice(["-", "--", "(lo - hi)", "pre- and", "well-known", "https://example.org/zq/a_rather_long_path/of_the_documentation.html"]))
                text = " ".join(ws)
            return text, "long"
        if self.k.p_multiline_doc and self.chance(self.k.p_multiline_doc):
            return "the {} setting {}\nand also {}".format(tag, self._words(r.randint(1, 4)), self._words(r.randint(2, 5))), "multi_line"
        if self.k.p_boundary_doc and self.chance(self.k.p_boundary_doc):
            want = r.randint(60, 98)
            text = "the {} setting".format(tag)
            for w in self._words(30).split(" "):
                if len(text) + 1 + len(w) > want:
                    break
                text += " " + w
            if want - len(text) >= 2:
                text += " " + "x" * (want - len(text) - 1)
            return text, "boundary"
        if self.chance(self.k.p_hostile_doc):
            kind = r.choice(
                [
                    "word_default", "number", "paren", "backtick", "stop", "comma",
                    "optional_word", "eg", "colon", "percent",
                ]
            )
            base = "the {} setting".format(tag)
            if kind == "word_default":
                return base + " overriding the default behaviour", "word_default"
            if kind == "number":
                return base + " scaled by 0.5 of total", "number"
            if kind == "paren":
                return base + " (in epochs) used", "paren"
            if kind == "backtick":
                return base + ", e.g., `np` or `tf`", "backtick"
            if kind == "stop":
                return base + ".", "stop"
            if kind == "comma":
                return base + " of many,", "comma"
            if kind == "optional_word":
                return "Optional " + base, "optional_word"
            if kind == "eg":
                return base + ". Used by the trainer", "inner_stop"
            if kind == "colon":
                return base + " example: foo", "colon"
            if kind == "percent":
                return base + " held out at 20% of the data, shown as %(zq)s", "percent"
        return "the {} setting {}".format(tag, self._words(r.randint(0, 4))).rstrip(), "plain"

    # -- values -----------------------------------------------------------
    def v_str(self, name):
        r = self.r
        kinds = ["plain", "path", "space", "numeric"]
        if self.k.hostile_strings:
            kinds += ["dot", "empty", "inner_quote"]
        kind = r.choice(kinds)
        if kind == "numeric":
            # a string that reads like a number or a boolean
            return r.choice(["5", "-3", "0.5", "True", "1e3"]), "str_numeric"
        if kind == "plain":
            return "val_{}".format(name), "str_plain"
        if kind == "path":
            return "~/data_{}/sub".format(name), "str_path"
        if kind == "space":
            return "two words {}".format(name), "str_space"
        if kind == "dot":
            return "file_{}.txt".format(name), "str_dot"
        if kind == "empty":
            return "", "str_empty"
        return "it's {}".format(name), "str_quote"

    def v_int(self):
        r = self.r
        kind = r.choice(["pos", "pos", "zero", "neg", "large"])
        n = self._u()
        if kind == "pos":
            return 2 + n, "int_pos"
        if kind == "zero":
            return 0, "int_zero"
        if kind == "neg":
            return -(2 + n), "int_neg"
        return 10 ** 9 + n, "int_large"

    def v_float(self):
        r = self.r
        kind = r.choice(["pos", "neg", "exp", "integral", "small", "unit"])
        n = self._u()
        if kind == "unit":
            # 0.0 and 1.0: equal in value to False / True and to 0 / 1, different in type
            return (0.0, "float_zero") if r.random() < 0.5 else (1.0, "float_one")
        if kind == "pos":
            return n + 0.25, "float_pos"
        if kind == "neg":
            return -(n + 0.5), "float_neg"
        if kind == "exp":
            return float("1e-{:02d}".format(7 + n % 20)), "float_exp"
        if kind == "integral":
            return float(3 + n), "float_integral"
        return 0.001 * (n + 1), "float_small"

    def v_code(self, which=None):
        r = self.r
        n = self._u()
        kind = which or r.choice(["list", "tuple", "dict", "call", "dotted_call", "arith"])
        src = {
            "list": "[{}, {}]".format(n, n + 1),
            "tuple": "({}, {})".format(n, n + 1),
            "dict": "{{'k{}': {}}}".format(n, n),
            "call": "make_thing({})".format(n),
            "dotted_call": "np.empty({})".format(n),
            "arith": "{} * 1024".format(n + 2),
        }[kind]
        return "```{}```".format(src), "code_" + kind

    def typ_and_default(self, name):
        """Returns (typ or None, typ_class, default or MISSING, default_class)."""
        r, k = self.r, self.k
        MISSING = IRGen.MISSING
        if self.chance(k.p_untyped):
            typ, tc = None, "none"
        else:
            pool = ["scalar"] * 5 + ["optional"] * 3 + ["list", "literal", "union"]
            if not k.argparse_domain:
                pool += ["tuple", "dotted", "dotted", "union_names", "optional_dotted"]
            tc = r.choice(pool)
            typ = None
        if tc == "scalar":
            s = r.choice(SCALARS)
            typ, tc = s, "scalar_" + s
        elif tc == "optional":
            s = r.choice(SCALARS)
            typ, tc = "Optional[{}]".format(s), "optional_" + s
        elif tc == "optional_dotted":
            typ, tc = "Optional[{}]".format(r.choice(DOTTED)), "optional_dotted"
        elif tc == "list":
            s = r.choice(("str", "int", "float"))
            typ, tc = "List[{}]".format(s), "list_" + s
        elif tc == "literal":
            if r.random() < 0.7:
                typ, tc = "Literal['{0}_a', '{0}_b']".format(name), "literal_str"
                if k.p_literal_with_spaces and self.chance(k.p_literal_with_spaces):
                    typ = "Literal['{0}_a', '{0} zq alpha beta gamma delta epsilon zeta eta theta iota kappa lambda mu nu xi omicron pi rho sigma tau']".format(name)
            else:
                n = self._u()
                typ, tc = "Literal[{}, {}]".format(n, n + 100), "literal_int"
        elif tc == "union":
            typ, tc = "Union[int, str]", "union_scalar"
        elif tc == "union_names":
            typ, tc = "Union[np, tf]", "union_names"
        elif tc == "tuple":
            typ, tc = "Tuple[int, int]", "tuple"
        elif tc == "dotted":
            typ, tc = r.choice(DOTTED), "dotted"

        # default consistent with type
        if self.chance(k.p_no_default):
            return typ, tc, MISSING, "absent"
        none_ok = tc in ("none", "optional_dotted", "dotted") or tc.startswith("optional_")
        if none_ok and self.chance(k.p_none_default / (1 - k.p_no_default)):
            return typ, tc, NoneStr, "none"
        base = tc.split("_", 1)[1] if tc.startswith(("scalar_", "optional_")) else None
        if tc == "none":
            base = r.choice(["str", "int", "float", "bool", "code"])
        if base in ("int", "float", "bool") and tc != "none" and k.p_scalar_code_default and self.chance(k.p_scalar_code_default):
            v, dc = self.v_code(r.choice(["call", "dotted_call", "arith"]))
        elif base == "str":
            v, dc = self.v_str(name)
        elif base == "int":
            v, dc = self.v_int()
        elif base == "float" and k.p_float_typed_int_default and self.chance(k.p_float_typed_int_default):
            v, dc = self.v_int()
            if v == 0:
                v, dc = 1, "int_pos"
        elif base == "float":
            v, dc = self.v_float()
        elif base == "bool":
            v = r.random() < 0.5
            dc = "bool_true" if v else "bool_false"
        elif base == "code":
            v, dc = self.v_code()
        elif base == "dotted" or tc == "dotted":
            v, dc = self.v_code(r.choice(["call", "dotted_call"]))
        elif tc.startswith("list_"):
            if not self.chance(k.p_code_default):
                return typ, tc, MISSING, "absent"
            v, dc = self.v_code("list")
        elif tc == "tuple":
            if not self.chance(k.p_code_default):
                return typ, tc, MISSING, "absent"
            v, dc = self.v_code("tuple")
        elif tc == "literal_str":
            v, dc = "{}_a".format(name), "str_plain"
        elif tc == "literal_int":
            v = int(typ[len("Literal["):].split(",")[0])
            dc = "int_pos"
        elif tc == "union_scalar":
            if r.random() < 0.5:
                v, dc = self.v_int()
            else:
                v, dc = self.v_str(name)
        elif tc == "union_names":
            v, dc = "np", "str_plain"
        else:  # pragma: no cover
            raise AssertionError(tc)
        return typ, tc, v, dc

    MISSING = object()

    # ------------------------------------------------------------------ whole IR
    def ir(self):
        """Returns (ir, features)."""
        r, k = self.r, self.k
        doc, doc_cls = self.summary()
        n = 0 if self.chance(k.p_zero_params) else r.randint(1, k.max_params)
        names = r.sample(NAMES, n)
        params = OrderedDict()
        pfeat = OrderedDict()
        seen_default = False
        for idx, name in enumerate(names):
            typ, tc, default, dc = self.typ_and_default(name)
            p = {}
            states_default = False
            if self.chance(k.p_no_doc):
                docc = "absent"
            else:
                p["doc"], docc = self.prose(name)
            if typ is not None:
                p["typ"] = typ
            if default is not IRGen.MISSING:
                p["default"] = default
                if "doc" in p and k.p_doc_states_default and self.chance(k.p_doc_states_default) and not str(dc).startswith("code"):
                    shown = "None" if default == NoneStr else default
                    if isinstance(shown, str) and shown != "None" and typ and "str" in typ:
                        shown = '"{}"'.format(shown)
                    if k.p_stale_doc_default and type(shown) in (int, float) and self.chance(k.p_stale_doc_default):
                        shown = shown + 1
                    p["doc"] = "{}{} Defaults to {}".format(p["doc"], "" if p["doc"].endswith((".", ",")) else ".", shown)
                    states_default = True
            params[name] = p
            pfeat[name] = {
                "idx": idx,
                "typ_class": tc,
                "default_class": dc,
                "doc_class": docc,
                "doc_states_default": states_default,
                "after_defaulted": seen_default,
                "kind": "param",
            }
            if dc != "absent":
                seen_default = True
        has_kwargs = self.chance(k.p_kwargs)
        if has_kwargs:
            name = r.choice(KWARGS_NAMES)
            p = {"typ": "Optional[dict]", "default": NoneStr}
            if self.chance(0.85):
                p["doc"] = "pass zq_{} as arguments to the loader function".format(name)
                docc = "plain"
            else:
                docc = "absent"
            params[name] = p
            pfeat[name] = {
                "idx": len(pfeat),
                "typ_class": "kwargs",
                "default_class": "none",
                "doc_class": docc,
                "after_defaulted": seen_default,
                "kind": "kwargs",
            }
        returns = None
        rfeat = None
        if self.chance(k.p_return) or (n == 0 and not has_kwargs and self.chance(0.7)):
            rt = {}
            rtc, rdc, rdoc = "none", "absent", "absent"
            if self.chance(k.p_return_typ):
                choice = r.choice(
                    ["scalar", "dotted", "union_tuple", "tuple", "optional"]
                    if not k.argparse_domain
                    else ["scalar", "scalar", "optional"]
                )
                if choice == "scalar":
                    s = r.choice(("int", "float", "str", "bool"))
                    rt["typ"], rtc = s, "scalar_" + s
                elif choice == "dotted":
                    rt["typ"], rtc = r.choice(DOTTED), "dotted"
                elif choice == "union_tuple":
                    rt["typ"] = (
                        "Union[Tuple[tf.data.Dataset, tf.data.Dataset], "
                        "Tuple[np.ndarray, np.ndarray]]"
                    )
                    rtc = "union_tuple"
                elif choice == "tuple":
                    rt["typ"], rtc = "Tuple[int, int]", "tuple"
                else:
                    s = r.choice(("int", "str"))
                    rt["typ"], rtc = "Optional[{}]".format(s), "optional_" + s
            if self.chance(k.p_return_doc):
                rt["doc"], rdoc = "the zq_return_type value which is computed", "plain"
                if self.chance(k.p_long_doc):
                    rt["doc"], rdoc = "the zq_return_type value which is computed from {}".format(self._words(r.randint(12, 20))), "long"
            if self.chance(k.p_return_default):
                nn = self._u()
                kind = r.choice(["paren_tuple", "code_call", "code_tuple", "code_name", "code_arith"])
                pnames = [n for n in params if not n.endswith("kwargs")]
                if pnames and self.chance(k.p_return_over_params):
                    # the returned expression is computed from the parameters (as real functions do)
                    rt["default"] = "```{} + {}```".format(pnames[0], pnames[-1]) if len(pnames) > 1 else "```{} * 2```".format(pnames[0])
                    kind = "code_arith_over_params"
                else:
                    rt["default"] = None
                rt["default"] = rt["default"] or {
                    "paren_tuple": "(np.empty({0}), np.empty({0}))".format(nn),
                    "code_call": "```np.empty({})```".format(nn),
                    "code_tuple": "```(np.empty({0}), np.empty({0}))```".format(nn),
                    "code_name": "```result_{}```".format(nn),
                    "code_arith": "```{} + 1```".format(nn),
                    "code_arith_over_params": None,
                }[kind]
                rdc = "code_arith" if kind == "code_arith_over_params" else kind
                if k.p_return_none_default and self.chance(k.p_return_none_default):
                    rt["default"], rdc = "None", "none_source"
                    rt["typ"], rtc = "Optional[{}]".format(r.choice(("int", "str"))), "optional_none"
                elif k.p_return_literal_source and self.chance(k.p_return_literal_source):
                    rt["default"], rdc = r.choice(["5", "0.5", "True", "'mnist'"]), "literal_source"
                    if "typ" in rt:
                        # a declared return type that fits the literal (a bool-typed return of 'mnist' is no interface)
                        fit = {"5": "int", "0.5": "float", "True": "bool", "'mnist'": "str"}[rt["default"]]
                        rt["typ"], rtc = fit, "scalar_" + fit
                elif k.p_return_str_value and self.chance(k.p_return_str_value):
                    # a string value (not source text); one-character strings sit on the boundary of the quote stripping
                    rt["default"] = r.choice(["x", ",", "r", "zq", "val_ret", "two words ret"])
                    rdc = "str_one_char" if len(rt["default"]) == 1 else "str_plain"
                    rt["typ"], rtc = "str", "scalar_str"
            if not rt:
                rt["doc"], rdoc = "the zq_return_type value which is computed", "plain"
            returns = OrderedDict((("return_type", rt),))
            rfeat = {"typ_class": rtc, "default_class": rdc, "doc_class": rdoc, "kind": "return"}
        ir = {
            "name": None,
            "type": "static",
            "doc": doc,
            "params": params,
            "returns": returns,
        }
        feat = {
            "n_params": n,
            "kwargs": has_kwargs,
            "has_return": returns is not None,
            "summary_class": doc_cls,
            "params": pfeat,
            "ret": rfeat,
        }
        return ir, feat


def shape_signature(feat, extra=()):
    """Hashable signature of the *shape* of a case (used for distinct_nontrivial)."""
    return (
        feat["n_params"],
        feat["kwargs"],
        tuple(
            (p["typ_class"], p["default_class"], p["doc_class"] != "absent")
            for p in feat["params"].values()
        ),
        None
        if feat["ret"] is None
        else (feat["ret"]["typ_class"], feat["ret"]["default_class"], feat["ret"]["doc_class"]),
        feat["summary_class"],
    ) + tuple(extra)


def case_flags(feat):
    """Case-level booleans a cascade finding may key on (generator-level features)."""
    ps = [p for p in feat["params"].values() if p["kind"] == "param"]
    allp = list(feat["params"].values())
    ret = feat["ret"]

    def dotted_code(dc):
        return dc in ("code_dotted_call",)

    return {
        "case_pairs": sorted({"{}/{}".format(p["typ_class"], p["default_class"]) for p in allp}
                             | ({"ret:{}/{}".format(ret["typ_class"], ret["default_class"])} if ret else set())),
        "case_bare_param": any(p["typ_class"] == "none" and p["doc_class"] == "absent" for p in ps),
        "case_untyped_param": any(p["typ_class"] == "none" for p in ps),
        "case_undoc_param": any(p["doc_class"] == "absent" for p in allp),
        "case_undoc_defaulted_param": any(p["doc_class"] == "absent" and p["default_class"] not in ("absent",) for p in ps),
        "case_gap_after_default": any(p["after_defaulted"] and p["default_class"] == "absent" for p in ps),
        "case_any_default": any(p["default_class"] != "absent" for p in ps),
        "case_code_default": any(p["default_class"].startswith("code_") for p in ps),
        "case_dotted_default": any(p["default_class"] in ("code_dotted_call", "str_dot", "float_pos", "float_neg", "float_small") for p in ps),
        "case_long_doc": any(p["doc_class"] == "long" for p in allp),
        "case_optional_word": any(p["doc_class"] == "optional_word" for p in ps),
        "case_doc_states_default": any(p.get("doc_states_default") for p in ps),
        "case_only_return": feat["n_params"] == 0 and not feat["kwargs"] and feat["has_return"],
        "case_no_sections": feat["n_params"] == 0 and not feat["kwargs"] and not feat["has_return"],
        "case_return_no_typ": bool(ret) and ret["typ_class"] == "none",
        "case_return_no_doc": bool(ret) and ret["doc_class"] == "absent",
        "case_return_default": bool(ret) and ret["default_class"] != "absent",
    }


def ir_copy(ir):
    return deepcopy(ir)


def ir_jsonable(ir):
    """IR -> plain JSON-able structure (lists of pairs keep order explicit)."""

    def conv(v):
        if isinstance(v, (str, int, float, bool)) or v is None:
            return v
        import ast as _ast

        if isinstance(v, _ast.AST):
            return "ast:" + _ast.dump(v)
        return repr(v)

    out = {k: conv(v) for k, v in ir.items() if k not in ("params", "returns", "_internal")}
    # (the order of parameters is explicit; the key order INSIDE one entry is not part of the description)
    out["params"] = [[n, {k: conv(p[k]) for k in sorted(p)}] for n, p in (ir.get("params") or {}).items()]
    out["returns"] = (
        None
        if not ir.get("returns")
        else [[n, {k: conv(p[k]) for k in sorted(p)}] for n, p in ir["returns"].items()]
    )
    return out


def ir_from_jsonable(j):
    ir = {k: v for k, v in j.items() if k not in ("params", "returns")}
    ir["params"] = OrderedDict((n, dict(p)) for n, p in j["params"])
    ir["returns"] = None if j.get("returns") is None else OrderedDict((n, dict(p)) for n, p in j["returns"])
    return ir


# ------------------------------------------------------------------------------ features from values
def _typ_class_of(t, name=""):
    import re

    if name.endswith("kwargs") and t in (None, "Optional[dict]", "dict"):
        return "kwargs"
    if t is None:
        return "none"
    t = str(t)
    if t in SCALARS:
        return "scalar_" + t
    m = re.match(r"^Optional\[(\w+)\]$", t)
    if m and m.group(1) in SCALARS:
        return "optional_" + m.group(1)
    if t.startswith("Optional["):
        return "optional_dotted"
    m = re.match(r"^List\[(\w+)\]$", t)
    if m:
        return "list_" + m.group(1)
    if t.startswith("Literal['") or t.startswith('Literal["'):
        return "literal_str"
    if t.startswith("Literal["):
        return "literal_int"
    if t == "Union[int, str]":
        return "union_scalar"
    if t.startswith("Union[Tuple"):
        return "union_tuple"
    if t.startswith("Union["):
        return "union_names"
    if t.startswith("Tuple["):
        return "tuple"
    return "dotted"


def _default_class_of(p):
    import ast as _ast

    if "default" not in p:
        return "absent"
    v = p["default"]
    if v is None or v in (NoneStr, "```None```"):
        return "none"
    if isinstance(v, bool):
        return "bool_true" if v else "bool_false"
    if isinstance(v, int):
        return "int_zero" if v == 0 else ("int_neg" if v < 0 else ("int_large" if v >= 10 ** 9 else "int_pos"))
    if isinstance(v, float):
        return "float_neg" if v < 0 else ("float_integral" if v == int(v) else ("float_exp" if v < 1e-4 else "float_pos"))
    if isinstance(v, str):
        if len(v) > 6 and v.startswith("```") and v.endswith("```"):
            inner = v[3:-3].strip()
            try:
                node = _ast.parse(inner, mode="eval").body
            except SyntaxError:
                return "code_other"
            if isinstance(node, _ast.List):
                return "code_list"
            if isinstance(node, _ast.Tuple):
                return "code_tuple"
            if isinstance(node, _ast.Dict):
                return "code_dict"
            if isinstance(node, _ast.Call):
                return "code_dotted_call" if isinstance(node.func, _ast.Attribute) else "code_call"
            if isinstance(node, _ast.Name):
                return "code_name"
            return "code_arith"
        if v == "":
            return "str_empty"
        if v in ("5", "-3", "0.5", "True", "1e3"):
            return "str_numeric"
        if v.startswith("(") and v.endswith(")"):
            return "paren_tuple"
        if "." in v and not v.startswith("~"):
            return "str_dot"
        if "'" in v or '"' in v:
            return "str_quote"
        if v.startswith("~"):
            return "str_path"
        if " " in v:
            return "str_space"
        return "str_plain"
    return "pyobj"


def _doc_class_of(p):
    d = p.get("doc")
    if not d:
        return "absent"
    if d.startswith("Optional") or d.startswith("(Optional)"):
        return "optional_word"
    if len(d) > 110:
        return "long"
    return "plain"


def feat_from_ir(ir):
    """Derive the generator-level feature description from an IR's VALUES (used for IRs that
    doctrans itself produced, e.g. the intermediate IRs of a conversion chain)."""
    pfeat = OrderedDict()
    seen_default = False
    params = ir.get("params") or {}
    for idx, (name, p) in enumerate(params.items()):
        kw = name.endswith("kwargs")
        dc = _default_class_of(p)
        pfeat[name] = {
            "idx": idx,
            "typ_class": _typ_class_of(p.get("typ"), name),
            "default_class": dc,
            "doc_class": _doc_class_of(p),
            "doc_states_default": bool(re.search(r"[Dd]efaults? to", p.get("doc") or "")),
            "after_defaulted": seen_default,
            "kind": "kwargs" if kw else "param",
        }
        if dc != "absent" and not kw:
            seen_default = True
    ret = (ir.get("returns") or {}).get("return_type") if ir.get("returns") else None
    rfeat = None
    if ret:
        rfeat = {"typ_class": _typ_class_of(ret.get("typ")), "default_class": _default_class_of(ret),
                 "doc_class": _doc_class_of(ret), "kind": "return"}
    doc = ir.get("doc") or ""
    n_real = sum(1 for f in pfeat.values() if f["kind"] == "param")
    return {
        "n_params": n_real,
        "kwargs": any(f["kind"] == "kwargs" for f in pfeat.values()),
        "has_return": ret is not None,
        "summary_class": ("long" if any(len(l) > 100 for l in doc.split("\n")) else "short") + ("_multi" if "\n" in doc.strip() else ""),
        "params": pfeat,
        "ret": rfeat,
    }
