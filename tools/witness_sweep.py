#!/venv/bin/python
"""Run every check (given tier, seeds) with evidence redirected to a scratch dir and record,
per property, which known findings were witnessed.  Output: tools/witnessed.json (merged
with what is already there)."""
import json, os, subprocess, sys, tempfile, shutil
tier = sys.argv[1]; seeds = sys.argv[2:]
HERE = os.path.dirname(os.path.abspath(__file__)); ROOT = os.path.dirname(HERE)
out_path = os.path.join(HERE, 'witnessed.json')
acc = json.load(open(out_path)) if os.path.exists(out_path) else {}
props = ["C%02d" % i for i in range(1, 21)]
for seed in seeds:
    for p in props:
        ev = tempfile.mkdtemp(prefix='ws_')
        e = dict(os.environ, DTVERIF_EVIDENCE_DIR=ev, VERIF_SEED=seed)
        r = subprocess.run(['/venv/bin/python', '-m', 'dtverif.run', p, '--tier', tier], cwd=ROOT, env=e, capture_output=True, text=True)
        try:
            cov = json.load(open(os.path.join(ev, p + '.json')))['coverage']
            for fid, n in cov.get('known_findings_seen', {}).items():
                acc.setdefault(p, {})
                acc[p][fid] = acc[p].get(fid, 0) + n
        except Exception as ex:
            print("no evidence for", p, seed, ex)
        if r.returncode != 0:
            print("NONZERO", p, tier, seed, r.returncode, [l for l in r.stdout.split('\n') if l.startswith(('VIOLATION', 'INCONCL'))][:3])
        shutil.rmtree(ev, ignore_errors=True)
    json.dump(acc, open(out_path, 'w'), indent=1, sort_keys=True)
    print("seed", seed, "done")
