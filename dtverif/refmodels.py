"""Independent reference models written directly over the stdlib (never over doctrans):
* resolve(path, tree)      -- dotted-location resolver over plain `ast`
* replace_at(path, tree, node) -- reference replacement
"""
import ast


def _members(node):
    return getattr(node, "body", [])


def _find_named(body, name):
    """first ClassDef/FunctionDef called `name`, else first (Ann)Assign whose target is `name`."""
    for n in body:
        if isinstance(n, (ast.ClassDef, ast.FunctionDef, ast.AsyncFunctionDef)) and n.name == name:
            return n
    for n in body:
        if isinstance(n, ast.AnnAssign) and isinstance(n.target, ast.Name) and n.target.id == name:
            return n
        if isinstance(n, ast.Assign) and any(isinstance(t, ast.Name) and t.id == name for t in n.targets):
            return n
    return None


def resolve(path, tree):
    """Return (node, parent, kind) or (None, None, None).  kind in
    {'def','class','assign','arg','kwonlyarg'}."""
    cur, parent = tree, None
    for i, seg in enumerate(path):
        last = i == len(path) - 1
        if isinstance(cur, (ast.FunctionDef, ast.AsyncFunctionDef)):
            if not last:
                return None, None, None
            for a in cur.args.args:
                if a.arg == seg:
                    return a, cur, "arg"
            for a in cur.args.kwonlyargs:
                if a.arg == seg:
                    return a, cur, "kwonlyarg"
            # annotated local
            for n in cur.body:
                if isinstance(n, ast.AnnAssign) and isinstance(n.target, ast.Name) and n.target.id == seg:
                    return n, cur, "assign"
            return None, None, None
        nxt = _find_named(_members(cur), seg)
        if nxt is None:
            return None, None, None
        parent, cur = cur, nxt
    if cur is tree:
        return None, None, None
    kind = "class" if isinstance(cur, ast.ClassDef) else ("def" if isinstance(cur, (ast.FunctionDef, ast.AsyncFunctionDef)) else "assign")
    return cur, parent, kind


def node_id(node):
    if node is None:
        return None
    return (type(node).__name__, getattr(node, "lineno", None), getattr(node, "col_offset", None),
            getattr(node, "name", None) or getattr(node, "arg", None))
