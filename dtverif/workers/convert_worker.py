"""Worker for C12: a fixed, seed-determined list of conversions (all seven emitters on
generated IRs, parse of generated definitions incl. partially documented ones, parse of
emitted artefacts).  Modes:
    all                 run every conversion in index order, print `idx digest`
    perm <perm_seed> r  run them in a shuffled order, r repetitions, print `idx digest`
    single <idx>        run only conversion idx (fresh-process-alone baseline)
The conversion list depends only on the numeric seed, never on string hashing."""
import ast
import hashlib
import random
import sys


GEN_SRC = (
    "class Klass{0}(object):\n    \"\"\"\n    The zq class\n    \"\"\"\n\n    def __init__(self, a=5, b='x'):\n        \"\"\"\n        Init\n\n"
    "        :param a: the a\n\n        :param b: the b\n        \"\"\"\n        self.a = a\n\n"
    "def func{0}(q=1):\n    \"\"\"\n    The zq func\n\n    :param q: the q\n    \"\"\"\n    return q\n\n"
    "input_map = {{'Klass{0}': Klass{0}, 'func{0}': func{0}}}\n"
)


def build(seed, n):
    from dtverif.gen_ir import IRGen, ir_jsonable, knobs
    from dtverif.gen_py import gen_class_with_init, gen_function
    from dtverif.kinds import ALL_KINDS, emit_kind, option_space, parse_kind

    rng = random.Random(seed)
    g = IRGen(rng, knobs())
    convs = []
    spaces = {k: option_space(k) for k in ALL_KINDS}
    for i in range(n):
        ir, _ = g.ir()
        for kind in ALL_KINDS:
            opts = spaces[kind][(i * 3) % len(spaces[kind])]

            def emit_then_parse(ir=ir, kind=kind, opts=opts):
                from copy import deepcopy

                t = emit_kind(kind, deepcopy(ir), opts)
                try:
                    back = repr(ir_jsonable(parse_kind(kind, t, opts)))
                except Exception as e:
                    back = "EXC " + type(e).__name__
                return t + "\n#" + back

            convs.append(("emit+parse:{}:{}".format(kind, i), emit_then_parse))
        spec = gen_function(rng, force_partial_defaults=(i % 3 == 0), p_two_announcements=0.15, p_over_documented=0.3)

        def parse_fn(spec=spec):
            from doctrans import parse

            return repr(ir_jsonable(parse.function(ast.parse(spec.src).body[0])))

        convs.append(("parse.function:{}".format(i), parse_fn))
        if spec.kind == "static":

            def live_fn(spec=spec, i=i):
                # the same definition as a LIVE object of a real module (as `gen` feeds them), then emitted as a class
                import importlib
                import os
                import shutil
                import tempfile

                from doctrans import emit, parse
                from doctrans.source_transformer import to_code

                d = tempfile.mkdtemp(prefix="dtverif-c12-live-")
                modname = "zqlive_{}".format(i)
                try:
                    with open(os.path.join(d, modname + ".py"), "w") as f:
                        f.write("from typing import *\nimport json\n"
                                "class _S(type):\n    def __call__(c,*a,**k): return None\n    def __getattr__(c,n):\n"
                                "        if n.startswith('__'): raise AttributeError(n)\n        return _S(n,(),{})\n"
                                "np=_S('np',(),{})\ntf=_S('tf',(),{})\ntorch=_S('torch',(),{})\npathlib=_S('pathlib',(),{})\n"
                                "def make_thing(*a): return None\n" + spec.src)
                    sys.path.insert(0, d)
                    try:
                        mod = importlib.import_module(modname)
                        ir = parse.function(getattr(mod, spec.name))
                    finally:
                        sys.path.remove(d)
                        sys.modules.pop(modname, None)
                    return repr(ir_jsonable(ir))
                finally:
                    shutil.rmtree(d, ignore_errors=True)

            convs.append(("live.function->class:{}".format(i), live_fn))
        if i % 4 == 1:

            def gen_conv(i=i):
                # `gen` on a two-entry mapping of live objects, output read back as text
                import contextlib
                import io
                import os
                import shutil
                import tempfile

                from doctrans.gen import gen

                d = tempfile.mkdtemp(prefix="dtverif-c12-gen-")
                modname = "zqgen_{}".format(i)
                try:
                    with open(os.path.join(d, modname + ".py"), "w") as f:
                        f.write(GEN_SRC.format(i))
                    out = os.path.join(d, "out.py")
                    sys.path.insert(0, d)
                    try:
                        with contextlib.redirect_stdout(io.StringIO()):
                            gen(name_tpl="{name}Config", input_mapping=modname + ".input_map", type_=("class", "function")[i % 2], output_filename=out)
                    finally:
                        sys.path.remove(d)
                        sys.modules.pop(modname, None)
                    with open(out) as f:
                        return f.read()
                finally:
                    shutil.rmtree(d, ignore_errors=True)

            convs.append(("gen:{}".format(i), gen_conv))
        spec_b = gen_function(rng, with_body=True, kind="static")

        def fn_to_class_with_call(spec=spec_b):
            # a function with a body re-homed into a class __call__ (parameter references become self.<name>)
            from doctrans import emit, parse
            from doctrans.source_transformer import to_code

            return to_code(emit.class_(parse.function(ast.parse(spec.src).body[0]), emit_call=True, class_name="C_target"))

        convs.append(("function->class_with_call:{}".format(i), fn_to_class_with_call))
        if i % 2 == 1:
            # hand-written argparse functions whose options use type names beyond the scalar ones (dict, list, Path, ...),
            # and hand-written settings classes that mention the same type names: what either converts to must not
            # depend on which of them was converted first
            tnames = rng.sample(["dict", "list", "Path", "set", "bytes", "tuple", "object"], 3)
            opts_src = []
            for j, tn in enumerate(tnames):
                kw = ["type={}".format(tn), "help='the zq_{} option'".format(tn)]
                if rng.random() < 0.6:
                    kw.append("required=True")
                if rng.random() < 0.3:
                    kw.append("default={}".format({"dict": "{}", "list": "[]", "set": "None", "bytes": "b''", "tuple": "()", "Path": "None", "object": "None"}[tn]))
                opts_src.append("    argument_parser.add_argument('--opt_{}', {})".format(tn, ", ".join(kw)))
            ap_src = ("def set_cli_args(argument_parser):\n    \"\"\"\n    Set CLI arguments\n\n    :param argument_parser: argument parser\n"
                      "    :type argument_parser: ```ArgumentParser```\n\n    :returns: argument_parser\n    :rtype: ```ArgumentParser```\n    \"\"\"\n"
                      "    argument_parser.description = 'zq user parser {}'\n".format(i) + "\n".join(opts_src) + "\n    return argument_parser\n")
            two_groups = "    mode_{0}: Union[Literal['zq_alpha', 'zq_beta'], Literal['zq_gamma', 'zq_delta']] = 'zq_beta'\n".format(i)
            cls_src = "class Settings{}(object):\n    \"\"\"\n    The zq settings\n\n".format(i) + \
                      "".join("    :cvar attr_{0}: the zq_{0} attribute\n".format(tn) for tn in tnames) + "    \"\"\"\n\n" + \
                      "".join("    attr_{0}: {0} = {1}\n".format(tn, {"dict": "{}", "list": "[]", "set": "None", "bytes": "b''", "tuple": "()", "Path": "None", "object": "None"}[tn])
                              for tn in tnames) + two_groups

            def user_argparse(src=ap_src):
                from doctrans import parse

                return repr(ir_jsonable(parse.argparse_ast(ast.parse(src).body[0])))

            def user_class(src=cls_src):
                from doctrans import emit, parse
                from doctrans.source_transformer import to_code

                ir_ = parse.class_(ast.parse(src).body[0])
                out = []
                for em in (emit.argparse_function, emit.class_, emit.function):
                    from copy import deepcopy

                    try:
                        out.append(to_code(em(deepcopy(ir_))))
                    except Exception as e:
                        out.append("EXC " + type(e).__name__)
                return "\n".join(out)

            convs.append(("user.argparse_types:{}".format(i), user_argparse))
            convs.append(("user.class_types:{}".format(i), user_class))
        if i % 3 == 0:
            c = gen_class_with_init(rng)

            def parse_cls(c=c):
                from doctrans import parse

                return repr(ir_jsonable(parse.class_(ast.parse(c.src).body[0], merge_inner_function="__init__")))

            convs.append(("parse.class_merge:{}".format(i), parse_cls))
    return convs


def run_one(fn):
    try:
        out = fn()
    except Exception as e:
        out = "EXC " + type(e).__name__
    return hashlib.sha256(out.encode()).hexdigest()


def main():
    seed, n, mode = int(sys.argv[1]), int(sys.argv[2]), sys.argv[3]
    from dtverif import env

    env.boot()
    convs = build(seed, n)
    if mode == "all":
        for idx, (name, fn) in enumerate(convs):
            print(idx, name, run_one(fn))
    elif mode == "perm":
        prng = random.Random(int(sys.argv[4]))
        reps = int(sys.argv[5])
        order = list(range(len(convs))) * reps
        prng.shuffle(order)
        for idx in order:
            print(idx, convs[idx][0], run_one(convs[idx][1]))
    elif mode == "single":
        for a in sys.argv[4:]:
            idx = int(a)
            # each idx in its own interpreter is requested by the parent; several idx here
            # would share a process, so the parent passes exactly one
            print(idx, convs[idx][0], run_one(convs[idx][1]))
    elif mode == "count":
        print(len(convs))


if __name__ == "__main__":
    main()
