"""Worker for C18.  Started with DOCTRANS_LINE_LENGTH set (or unset) in its environment.
For every generated IR and every kind: emit with word_wrap on and off (same other
options), parse both artefacts with the real parsers, compare parse(wrapped) against
parse(unwrapped) field-wise (prose/summary modulo whitespace).  Prints one JSON line per
case: {"i":..,"kind":..,"status":..,"discs":[...]}.  Final line: {"summary": {...}}."""
import json
import os
import random
import sys


def main():
    seed, n = int(sys.argv[1]), int(sys.argv[2])
    from dtverif import env

    env.boot()
    from dtverif.canon import Table, compare
    from dtverif.gen_ir import IRGen, case_flags, ir_copy, knobs
    from dtverif.kinds import ALL_KINDS, emit_kind, option_space, parse_kind
    from dtverif.runner import exc_symptom
    import doctrans.pure_utils as pu

    class WrapTable(Table):
        wrap = True
        summary_wrap = True

    width = os.environ.get("DOCTRANS_LINE_LENGTH")
    rng = random.Random(seed)
    g = IRGen(rng, knobs(p_long_doc=0.35, p_long_summary=0.35, p_doc_states_default=0.4, p_hyphen_tokens=0.5, p_multiline_doc=0.08, p_literal_with_spaces=0.5))
    ga = IRGen(rng, knobs(p_long_doc=0.35, p_long_summary=0.35, argparse_domain=True, p_doc_states_default=0.4, p_hyphen_tokens=0.5))
    # descriptions in which nothing needs wrapping at the usual widths (short prose, every parameter typed), a good part
    # of them with prose that itself contains a line break
    gc = IRGen(rng, knobs(p_untyped=0.0, p_long_doc=0.0, p_long_summary=0.0, p_boundary_doc=0.0, p_multiline_doc=0.4, p_doc_states_default=0.2))
    spaces = {k: [o for o in option_space(k) if o.get("word_wrap")] for k in ALL_KINDS}
    counts = {"cases": 0, "emit_ok": 0, "compared": 0, "max_line": 0, "lines_over_width": 0, "line_length_type": type(pu.line_length).__name__}
    for i in range(n):
        ir, feat = g.ir() if i % 4 else gc.ir()
        ira, feata = ga.ir()
        for kind in ALL_KINDS:
            uir, ufeat = (ira, feata) if kind == "argparse" else (ir, feat)
            opts_w = dict(spaces[kind][(i * 3) % len(spaces[kind])])
            if kind in ("rest", "numpydoc", "google"):
                opts_w["parse_emit_default_doc"] = True
            opts_u = dict(opts_w, word_wrap=False)
            counts["cases"] += 1
            rec = {"i": i, "kind": kind, "opts": opts_w, "discs": [], "feat_n": ufeat["n_params"]}
            base = {"op": "wrap_transparency", "kind": kind, "line_length": width or "unset"}
            if kind in ("rest", "numpydoc", "google"):
                base["style"] = kind
            base.update(case_flags(ufeat))
            # may any entry reach the width?  (head, indentation and the default sentence generously allowed for)
            w_ = int(width) if width else 100
            base["case_wrappable_entry"] = any(
                max(len(l_) for l_ in (p_.get("doc") or "").split("\n")) + len(str(p_.get("default", ""))) + len(str(p_.get("typ") or "")) + 60 > w_
                for p_ in list(uir["params"].values()) + list((uir.get("returns") or {}).values())) or \
                any(len(l_) + 12 > w_ for l_ in (uir.get("doc") or "").split("\n"))
            base["case_multi_line_doc"] = any("\n" in (p_.get("doc") or "") for p_ in list(uir["params"].values()) + list((uir.get("returns") or {}).values()))
            base.update(opts_w)
            base["summary_class"] = ufeat["summary_class"]
            try:
                tw = emit_kind(kind, ir_copy(uir), opts_w)
            except Exception as e:
                et, where = exc_symptom(e)
                rec["discs"].append(dict(base, field="raises", stage="emit_wrapped", exc=et, exc_in=where, msg=str(e)[:160]))
                # does the unwrapped emitter work?  (then wrapping itself is the culprit)
                try:
                    emit_kind(kind, ir_copy(uir), opts_u)
                    rec["discs"][-1]["unwrapped_ok"] = True
                except Exception as e2:
                    if type(e2) is type(e):
                        # fails identically without wrapping: not this property's subject
                        rec["discs"] = []
                        rec["status"] = "unwrapped_failed"
                    else:
                        rec["discs"][-1]["unwrapped_ok"] = False
                print(json.dumps(rec, default=repr))
                continue
            counts["emit_ok"] += 1
            w = int(width) if width else 100
            for line in tw.split("\n"):
                counts["max_line"] = max(counts["max_line"], len(line))
                if len(line) > w + 8 and " " in line.strip():
                    counts["lines_over_width"] += 1
            try:
                tu = emit_kind(kind, ir_copy(uir), opts_u)
                pu_ = parse_kind(kind, tu, opts_u)
            except Exception:
                rec["status"] = "unwrapped_failed"
                print(json.dumps(rec, default=repr))
                continue
            try:
                pw = parse_kind(kind, tw, opts_w)
            except Exception as e:
                et, where = exc_symptom(e)
                rec["discs"].append(dict(base, field="raises", stage="parse_wrapped", exc=et, exc_in=where, msg=str(e)[:160], unwrapped_parse_ok=True))
                rec["text"] = tw
                print(json.dumps(rec, default=repr))
                continue
            counts["compared"] += 1
            # expected := what the UNWRAPPED artefact parses to; features from the generator
            # (parameters the unwrapped parse does not have are not this property's subject)
            exp = dict(pu_)
            feat2 = dict(ufeat)
            feat2["params"] = {k: v for k, v in ufeat["params"].items()}
            for nme in (exp.get("params") or {}):
                feat2["params"].setdefault(nme, {"typ_class": "?", "default_class": "?", "doc_class": "?", "kind": "param", "after_defaulted": None, "idx": None})

            class T(WrapTable):
                def expected_names(self, ir_, f_):
                    return list((ir_.get("params") or {}).keys())

            discs = compare(exp, pw, feat2, T(), base)
            if discs:
                rec["discs"] = discs
                rec["text"] = tw
            print(json.dumps(rec, default=repr))
    print(json.dumps({"summary": counts}))


if __name__ == "__main__":
    main()
