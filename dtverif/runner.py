"""Tiers, seeds, sharding over subprocesses, evidence, replay files, three-valued verdict.

Exit codes: 0 held (on everything observed) / 1 violated (VIOLATION line + replay file) /
3 inconclusive (a deciding monitor saw nothing, an anchor was never reached, a shard timed
out ...).  Inconclusive is never folded into either of the others.
"""
import collections
import hashlib
import importlib
import json
import os
import random
import subprocess
import sys
import tempfile
import time
import traceback

from . import env
from .findings import Findings

EVIDENCE_DIR = os.environ.get("DTVERIF_EVIDENCE_DIR") or os.path.join(env.ROOT, "evidence")
REPLAY_DIR = os.path.join(EVIDENCE_DIR, "replays")
MAX_REPLAYS = 12
MAX_SAMPLES = 5


def _sig_hash(sig):
    return hashlib.md5(repr(sig).encode()).hexdigest()[:16]


def exc_symptom(e):
    """(exception type name, name of the innermost doctrans function in the traceback)."""
    tb = traceback.extract_tb(e.__traceback__)
    where = None
    for fr in tb:
        fn = fr.filename.replace("\\", "/")
        if "/doctrans/" in fn and "/dtverif/" not in fn:
            where = fr.name
    return type(e).__name__, where


class Ctx:
    """Handed to a check's `run(ctx)`; collects everything a verdict needs."""

    def __init__(self, prop, tier, seed, shard=(0, 1), explain=False):
        self.prop, self.tier, self.seed, self.shard = prop, tier, seed, shard
        self.rng = random.Random("{}:{}:{}:{}".format(prop, seed, shard[0], shard[1]))
        self.explain = explain
        self.findings = Findings()
        self.evaluations = 0
        self.signatures = set()
        self.samples = []
        self.sample_keys = set()
        self.events = collections.Counter()
        self.features = collections.Counter()
        self.violations = []  # dicts (capped)
        self.n_violations = 0
        self.violation_keys = collections.Counter()
        self.known = collections.Counter()
        self.known_audit = collections.defaultdict(collections.Counter)
        self.known_example = {}
        self.clean_cases = 0
        self.requirements = {}  # event name -> minimum
        self.notes = {}
        self.anchors = None
        self.inconclusive = []
        self._case_dirty = False
        self.clusters = collections.Counter()
        self.cluster_example = {}
        self.cluster_break = {}

    def case_rng(self, key):
        """A generator that depends only on (property, seed, case key): a case can be rebuilt
        from its replay file without re-running the cases before it."""
        return random.Random("{}:{}:{}".format(self.prop, self.seed, key))

    # ---- workload bookkeeping
    def quick(self):
        return self.tier == "quick"

    def n(self, quick, thorough):
        """Per-shard count for this tier."""
        total = quick if self.tier == "quick" else thorough
        if os.environ.get("DTVERIF_N"):
            total = int(os.environ["DTVERIF_N"])
        i, k = self.shard
        return total // k + (1 if i < total % k else 0)

    def case(self, sig, nontrivial=True, sample=None, sample_key=None):
        """Register one evaluated case; `sig` = hashable shape signature."""
        if self._case_open():
            self._close_case()
        self.evaluations += 1
        if nontrivial:
            self.signatures.add(_sig_hash(sig))
        if sample is not None:
            k = sample_key if sample_key is not None else len(self.samples)
            if k not in self.sample_keys and len(self.samples) < MAX_SAMPLES:
                self.sample_keys.add(k)
                self.samples.append(sample)
        self._open = True
        self._case_dirty = False

    def _case_open(self):
        return getattr(self, "_open", False)

    def _close_case(self):
        if not self._case_dirty:
            self.clean_cases += 1
        self._open = False

    def event(self, name, n=1):
        self.events[name] += n

    def feature(self, name, n=1):
        self.features[name] += n

    def require(self, name, minimum=1):
        self.requirements[name] = max(minimum, self.requirements.get(name, 0))

    def note(self, k, v):
        self.notes[k] = v

    # ---- discrepancies
    def report(self, disc, replay=None):
        """`disc`: flat dict (features + symptom).  `replay`: JSON-able payload that
        reproduces the case (written only for violations)."""
        self._case_dirty = True
        fid = self.findings.classify(self.prop, disc)
        sym = tuple(sorted((k, str(v)) for k, v in disc.items() if k not in ("expected", "observed", "param", "idx", "detail")))
        if self.explain:
            ck = (fid,) + tuple(str(disc.get(k)) for k in ("op", "style", "kind", "field", "tag", "exc", "exc_in", "stage"))
            self.clusters[ck] += 1
            exs = self.cluster_example.setdefault(ck, [])
            if len(exs) < 3:
                exs.append((disc, replay))
            br = self.cluster_break.setdefault(ck, collections.defaultdict(collections.Counter))
            for k, v in disc.items():
                if k not in ("op", "style", "kind", "field", "tag", "exc", "exc_in", "stage", "expected", "observed", "param", "detail", "msg", "idx", "n_params"):
                    br[k][str(v)] += 1
        if fid is not None:
            self.known[fid] += 1
            self.known_audit[fid][sym] += 1
            self.known_example.setdefault(fid, {k: disc.get(k) for k in ("op", "param", "expected", "observed", "exc", "exc_in", "msg") if k in disc})
            return fid
        self.n_violations += 1
        self.violation_keys[sym] += 1
        if self.violation_keys[sym] <= 2 and len(self.violations) < 60:
            self.violations.append({"disc": disc, "replay": replay})
        return None

    def report_exception(self, e, base, replay=None, **kw):
        et, where = exc_symptom(e)
        d = dict(base)
        d.update(field="raises", exc=et, exc_in=where, msg=str(e)[:200])
        d.update(kw)
        return self.report(d, replay)

    # ---- result
    def result(self):
        if self._case_open():
            self._close_case()
        return {
            "evaluations": self.evaluations,
            "signatures": sorted(self.signatures),
            "samples": self.samples,
            "events": dict(self.events),
            "features": dict(self.features),
            "violations": self.violations,
            "n_violations": self.n_violations,
            "known": dict(self.known),
            "known_audit": {f: [[list(map(list, k)), v] for k, v in c.most_common(40)] for f, c in self.known_audit.items()},
            "known_example": self.known_example,
            "clean_cases": self.clean_cases,
            "requirements": self.requirements,
            "notes": self.notes,
            "anchors": self.anchors,
            "inconclusive": self.inconclusive,
        }


def load_check(prop):
    return importlib.import_module("dtverif.checks.{}".format(prop.lower()))


def run_shard(prop, tier, seed, shard, explain=False):
    env.boot()
    mod = load_check(prop)
    ctx = Ctx(prop, tier, seed, shard, explain=explain)
    from .monitors import AnchorCoverage

    cov = None
    anchors = getattr(mod, "ANCHORS", None)
    if anchors:
        cov = AnchorCoverage(anchors)
        cov.start()
    try:
        mod.run(ctx)
    finally:
        if cov:
            cov.stop()
            ctx.anchors = cov.report()
    res = ctx.result()
    if explain:
        print("---- clusters: count, finding id, (op, style, kind, field, tag, exc, exc_in, stage) ----")
        for ck, c in sorted(ctx.clusters.items(), key=lambda kv: (str(kv[0][0]), -kv[1])):
            print("{:6d}  {}  {}".format(c, ck[0], ck[1:]))
            d, rp = ctx.cluster_example[ck][0]
            print("         e.g. param={} expected={} observed={} msg={}".format(d.get("param"), d.get("expected"), d.get("observed"), d.get("msg")))
            show_case = os.environ.get("DTVERIF_CASEFLAGS")
            for k, cnt in ctx.cluster_break[ck].items():
                if k.startswith("case_") and not show_case:
                    continue
                print("           {}: {}".format(k, dict(cnt.most_common(8))))
            pat = os.environ.get("DTVERIF_SHOW")
            if pat and all(x in repr(ck) for x in pat.split("&")):
                for d, rp in ctx.cluster_example[ck]:
                    print("         ---- example: param={} typ_class={} default_class={} doc_class={}".format(d.get("param"), d.get("typ_class"), d.get("default_class"), d.get("doc_class")))
                    print("              expected={} observed={}".format(d.get("expected"), d.get("observed")))
                    rp2 = dict(rp or {})
                    rp2.pop("feat", None)
                    for k, v in rp2.items():
                        if isinstance(v, str) and "\n" in v:
                            print("              {}:".format(k))
                            for line in v.split("\n"):
                                print("                 | " + line)
                        else:
                            print("              {}: {}".format(k, json.dumps(v, default=repr)))
    return res


def merge(results):
    out = {
        "evaluations": 0, "signatures": set(), "samples": [], "events": collections.Counter(),
        "features": collections.Counter(), "violations": [], "n_violations": 0,
        "known": collections.Counter(), "known_audit": {}, "known_example": {}, "clean_cases": 0,
        "requirements": {}, "notes": {}, "anchors": {}, "inconclusive": [],
    }
    for r in results:
        out["evaluations"] += r["evaluations"]
        out["signatures"].update(r["signatures"])
        for s in r["samples"]:
            if len(out["samples"]) < MAX_SAMPLES:
                out["samples"].append(s)
        out["events"].update(r["events"])
        out["features"].update(r["features"])
        out["violations"].extend(r["violations"])
        out["n_violations"] += r["n_violations"]
        out["known"].update(r["known"])
        for f, ex in r["known_example"].items():
            out["known_example"].setdefault(f, ex)
        for f, pairs in r["known_audit"].items():
            out["known_audit"].setdefault(f, collections.Counter())
            for k, v in pairs:
                out["known_audit"][f][json.dumps(k)] += v
        out["clean_cases"] += r["clean_cases"]
        for k, v in r["requirements"].items():
            out["requirements"][k] = max(v, out["requirements"].get(k, 0))
        for k, v in r["notes"].items():
            if isinstance(v, (int, float)) and not isinstance(v, bool) and isinstance(out["notes"].get(k), (int, float)):
                out["notes"][k] += v
            elif isinstance(v, list) and isinstance(out["notes"].get(k), list):
                out["notes"][k] = (out["notes"][k] + v)[:50]
            else:
                out["notes"].setdefault(k, v)
        for a, rep in (r["anchors"] or {}).items():
            cur = out["anchors"].setdefault(a, {"lines_hit": set(), "lines_executable": rep["lines_executable"]})
            cur["lines_hit"].update(rep["lines_hit"])
        out["inconclusive"].extend(r["inconclusive"])
    return out


def finish(prop, tier, seed, merged, level, rule, assumptions, wall, n_shards, extra_cov=None):
    """Decide, write evidence, print verdict lines, return exit code."""
    os.makedirs(REPLAY_DIR, exist_ok=True)
    findings = Findings()
    inconclusive = list(merged["inconclusive"])
    for name, minimum in merged["requirements"].items():
        if merged["events"].get(name, 0) < minimum:
            inconclusive.append("monitor `{}` observed {} events (< {})".format(name, merged["events"].get(name, 0), minimum))
    anchors_out = {}
    for a, rep in merged["anchors"].items():
        hit = len(rep["lines_hit"])
        anchors_out[a] = {"lines_hit": hit, "lines_executable": rep["lines_executable"]}
        if hit == 0:
            inconclusive.append("anchor {} never reached".format(a))
    distinct = len(merged["signatures"])
    if distinct < 2 or merged["evaluations"] < 1:
        inconclusive.append("too few distinct non-trivial cases ({})".format(distinct))

    lines = []
    replays = []
    for old in os.listdir(REPLAY_DIR):
        if old.startswith(prop + "-"):
            try:
                os.unlink(os.path.join(REPLAY_DIR, old))
            except OSError:
                pass
    for v in merged["violations"][:MAX_REPLAYS]:
        payload = {"property": prop, "tier": tier, "seed": seed, "discrepancy": v["disc"], "replay": v["replay"]}
        digest = hashlib.md5(json.dumps(payload, sort_keys=True, default=repr).encode()).hexdigest()[:12]
        path = os.path.join(REPLAY_DIR, "{}-{}.json".format(prop, digest))
        with open(path, "w") as f:
            json.dump(payload, f, indent=1, default=repr)
        replays.append(path)
        lines.append("VIOLATION property={} replay={}".format(prop, path))
        d = v["disc"]
        lines.append("  what: " + ", ".join("{}={}".format(k, d[k]) for k in sorted(d) if k not in ("detail",))[:600])
    # one line per finding listed under this property (witnessed in this run or not), plus any
    # finding listed elsewhere whose mechanism surfaced here
    listed = [f["id"] for f in findings.listed_under(prop)]
    for fid in sorted(set(listed) | set(merged["known"])):
        f = findings.get(fid) or {}
        cnt = merged["known"].get(fid, 0)
        lines.append("KNOWN-FINDING: property={} {} [{}] witnesses={}{}".format(
            prop, f.get("what", fid), fid, cnt, "" if cnt else " (not reached by this run's workload)"))

    coverage = {
        "evaluations": merged["evaluations"],
        "distinct_nontrivial": distinct,
        "rule": rule,
        "samples": merged["samples"] or ["(no samples)"],
        "clean_cases": merged["clean_cases"],
        "monitor_events": dict(merged["events"]),
        "feature_histogram": dict(merged["features"]),
        "anchors": anchors_out,
        "known_findings_seen": dict(merged["known"]),
        "known_findings_audit": {f: [{"symptom": json.loads(k), "n": v} for k, v in c.most_common(8)] for f, c in merged["known_audit"].items()},
        "violations_total": merged["n_violations"],
        "violation_replays": replays,
        "inconclusive_reasons": inconclusive,
        "shards": n_shards,
        "exhaustive": bool(merged["notes"].get("exhaustive", False)),
    }
    for k, v in merged["notes"].items():
        coverage.setdefault(k, v)
    if extra_cov:
        coverage.update(extra_cov)
    ev = {
        "property_id": prop,
        "tier": tier,
        "seed": seed,
        "level": level,
        "coverage": coverage,
        "assumptions": assumptions,
        "wall_s": round(wall, 2),
        "violations": merged["n_violations"],
    }
    os.makedirs(EVIDENCE_DIR, exist_ok=True)
    evpath = os.path.join(EVIDENCE_DIR, "{}.json".format(prop))
    # validate before writing
    try:
        import jsonschema

        with open("/root/.vp/EVIDENCE.schema.json") as f:
            schema = json.load(f)
        jsonschema.validate(json.loads(json.dumps(ev, default=repr)), schema)
    except FileNotFoundError:
        pass
    except Exception as e:  # schema problem: never silently pass
        if not (distinct < 2):
            inconclusive.append("evidence does not validate: {}".format(str(e)[:200]))
    with open(evpath, "w") as f:
        json.dump(ev, f, indent=1, default=repr, sort_keys=False)

    for l in lines:
        print(l)
    print(
        "SUMMARY property={} tier={} seed={} evaluations={} distinct_nontrivial={} clean_cases={} "
        "known_finding_witnesses={} violations={} wall_s={:.1f}".format(
            prop, tier, seed, merged["evaluations"], distinct, merged["clean_cases"],
            sum(merged["known"].values()), merged["n_violations"], wall,
        )
    )
    print("  monitor_events: " + json.dumps(dict(merged["events"]), sort_keys=True)[:1500])
    print("  anchors: " + json.dumps({k: "{}/{}".format(v["lines_hit"], v["lines_executable"]) for k, v in anchors_out.items()})[:1500])
    if merged["n_violations"]:
        return 1
    if inconclusive:
        for r in inconclusive:
            print("INCONCLUSIVE property={} reason={}".format(prop, r))
        return 3
    return 0


def main(argv=None):
    import argparse

    ap = argparse.ArgumentParser(prog="python -m dtverif.run")
    ap.add_argument("prop")
    ap.add_argument("--tier", default=os.environ.get("VERIF_TIER", "quick"), choices=("quick", "thorough"))
    ap.add_argument("--seed", type=int, default=int(os.environ.get("VERIF_SEED", "0") or 0))
    ap.add_argument("--shard", default=None, help="i/n (internal)")
    ap.add_argument("--result", default=None, help="where a shard writes its JSON result (internal)")
    ap.add_argument("--explain", action="store_true", help="print discrepancy clusters (single process)")
    ap.add_argument("--shards", type=int, default=None)
    args = ap.parse_args(argv)
    prop = args.prop.upper()

    if os.environ.get("PYTHONHASHSEED") != "0":
        # the harness itself runs with a fixed hash seed; only sweeps vary it
        os.environ["PYTHONHASHSEED"] = "0"
        os.execve(sys.executable, [sys.executable, "-m", "dtverif.run"] + (argv or sys.argv[1:]), env.child_env())

    env.ensure_deps()
    if args.shard:
        i, n = map(int, args.shard.split("/"))
        res = run_shard(prop, args.tier, args.seed, (i, n), explain=args.explain)
        with open(args.result, "w") as f:
            json.dump(res, f, default=repr)
        return 0

    t0 = time.time()
    env.boot()
    mod = load_check(prop)
    n_shards = args.shards or getattr(mod, "SHARDS", {}).get(args.tier, 1)
    if args.explain:
        n_shards = 1
    results = []
    if n_shards == 1:
        results.append(run_shard(prop, args.tier, args.seed, (0, 1), explain=args.explain))
    else:
        tmpd = tempfile.mkdtemp(prefix="dtverif-shards-")
        procs = []
        timeout = getattr(mod, "TIMEOUT", {}).get(args.tier, 3600)
        for i in range(n_shards):
            out = os.path.join(tmpd, "r{}.json".format(i))
            cmd = [sys.executable, "-m", "dtverif.run", prop, "--tier", args.tier, "--seed", str(args.seed),
                   "--shard", "{}/{}".format(i, n_shards), "--result", out]
            log = open(os.path.join(tmpd, "r{}.log".format(i)), "w")
            procs.append((i, out, log, subprocess.Popen(cmd, cwd=env.ROOT, env=env.child_env(), stdout=log, stderr=subprocess.STDOUT)))
        bad = []
        deadline = time.time() + timeout
        for i, out, log, p in procs:
            try:
                p.wait(timeout=max(1, deadline - time.time()))
            except subprocess.TimeoutExpired:
                p.kill()
                bad.append("shard {} timed out (watchdog {}s)".format(i, timeout))
                continue
            finally:
                log.close()
            if p.returncode != 0 or not os.path.exists(out):
                with open(log.name) as f:
                    tail = f.read()[-1500:]
                bad.append("shard {} exited {}: {}".format(i, p.returncode, tail))
                continue
            with open(out) as f:
                results.append(json.load(f))
        import shutil

        shutil.rmtree(tmpd, ignore_errors=True)
        if bad:
            results.append({"evaluations": 0, "signatures": [], "samples": [], "events": {}, "features": {},
                            "violations": [], "n_violations": 0, "known": {}, "known_audit": {}, "known_example": {},
                            "clean_cases": 0, "requirements": {}, "notes": {}, "anchors": {}, "inconclusive": bad})
    merged = merge(results)
    code = finish(
        prop, args.tier, args.seed, merged,
        level=getattr(mod, "LEVEL", "exploration"),
        rule=getattr(mod, "RULE", ""),
        assumptions=getattr(mod, "ASSUMPTIONS", []),
        wall=time.time() - t0,
        n_shards=n_shards,
    )
    return code
