#!/bin/bash
# usage: keep_mutant.sh <seed-id> <property> <agent-worktree> "<what it needs to manifest>" "<checks that catch it>" [patchfile] [demofile]
id=$1; prop=$2; src=$3; needs=$4; caught=$5; patch=${6:-$src/mutant.patch}; demo=${7:-$src/demo.py}
wt=$(mktemp -d /tmp/km_XXXXXX); rmdir $wt
git -C /repo worktree add -q --detach $wt HEAD || exit 2
trap "git -C /repo worktree remove --force $wt; git -C /repo worktree prune" EXIT
sed "s#$src#$wt#g" $demo > $wt/demo_seeded.py
(cd $wt && PYTHONPATH=$wt timeout 300 /venv/bin/python demo_seeded.py >/dev/null 2>&1); rc_clean=$?
(cd $wt && git apply --whitespace=nowarn $patch) || { echo "patch does not apply"; exit 2; }
(cd $wt && PYTHONPATH=$wt timeout 300 /venv/bin/python demo_seeded.py >/dev/null 2>&1); rc_mut=$?
base=$(/verif/tools/baseline_check.py $wt | head -1)
echo "demo without change: rc=$rc_clean ; with change: rc=$rc_mut ; $base"
if [ $rc_clean -ne 0 ] || [ $rc_mut -eq 0 ] || ! echo "$base" | grep -q "baseline_missing=0"; then echo "NOT CONFIRMED - not kept"; exit 1; fi
mkdir -p /verif/seeded/$id
cp $patch /verif/seeded/$id/patch.diff
sed "s#$src#/tmp/seeded_worktree#g" $demo > /verif/seeded/$id/demo.py
/venv/bin/python - "$id" "$prop" "$needs" "$caught" "$base" <<'PY'
import json,sys
id_,prop,needs,caught,base=sys.argv[1:6]
json.dump({"id":id_,"breaks_property":prop,"needs_to_manifest":needs,
 "confirmed":{"demo_exit_without_change":0,"demo_exit_with_change":"non-zero","repository_tests_with_change":base,
   "how":"tools/keep_mutant.sh: fresh scratch worktree of /repo HEAD; demo run before and after `git apply patch.diff`; tools/baseline_check.py on the patched worktree"},
 "caught_by":[c for c in caught.split(",") if c],
 "how_to_run_checks":"tools/try_mutant.sh seeded/%s/patch.diff quick <checks>  (scratch worktree + DTVERIF_REPO; /repo itself is never modified)" % id_,
 "note":"demo.py refers to the worktree as /tmp/seeded_worktree; replace with the directory the patch was applied to"},
 open('/verif/seeded/%s/meta.json'%id_,'w'),indent=1)
PY
echo "kept /verif/seeded/$id"
