"""Generic emit -> parse round-trip workload over one representation kind."""
from .canon import compare
from .gen_ir import IRGen, case_flags, ir_copy, ir_jsonable, ir_from_jsonable, shape_signature
from .kinds import emit_kind, option_space, parse_kind, table_for


def case_base(op, kind, ir, feat, opts):
    base = {"op": op, "kind": kind}
    if kind in ("rest", "numpydoc", "google"):
        base["style"] = kind
    base.update({k: v for k, v in opts.items()})
    base.update(case_flags(feat))
    base["case_wrappable_entry"] = any(
        len(p.get("doc") or "") + len(str(p.get("default", ""))) + 24 > 96
        for p in list(ir["params"].values()) + list((ir.get("returns") or {}).values())
    )
    base["summary_class"] = feat["summary_class"]
    base.update(n_params=feat["n_params"], has_kwargs=feat["kwargs"], has_return=feat["has_return"])
    return base


def one_roundtrip(ctx, op, kind, ir, feat, opts, extra_check=None):
    base = case_base(op, kind, ir, feat, opts)
    replay = {"ir": ir_jsonable(ir), "feat": feat, "kind": kind, "opts": opts}
    try:
        text = emit_kind(kind, ir_copy(ir), opts)
    except Exception as e:
        ctx.report_exception(e, base, replay, stage="emit")
        return None, None
    ctx.event("emit." + kind)
    replay["text"] = text
    try:
        back = parse_kind(kind, text, opts)
    except Exception as e:
        ctx.report_exception(e, base, replay, stage="parse")
        return text, None
    ctx.event("parse." + kind)
    for d in compare(ir, back, feat, table_for(kind, opts), base):
        ctx.report(d, replay)
    if extra_check:
        extra_check(ctx, base, replay, ir, feat, text, back)
    return text, back


def run_kind(ctx, op, kind, n, knobs_, extra_check=None, feature_hook=None):
    g = IRGen(ctx.rng, knobs_)
    space = option_space(kind)
    for i in range(n):
        ir, feat = g.ir()
        opts = space[(i * 7 + ctx.shard[0]) % len(space)]
        optsig = tuple(sorted(opts.items()))
        ctx.case(
            shape_signature(feat, (kind, optsig)),
            nontrivial=feat["n_params"] > 0 or feat["has_return"] or feat["kwargs"],
            sample={"kind": kind, "opts": opts, "ir": ir_jsonable(ir)},
            sample_key=kind + str(i % 2),
        )
        ctx.feature("kind=" + kind)
        for k, v in opts.items():
            ctx.feature("{}={}".format(k, v))
        if feat["n_params"] == 0:
            ctx.feature("zero_params")
        if feat["has_return"] and feat["n_params"] == 0 and not feat["kwargs"]:
            ctx.feature("only_return")
        for pf in feat["params"].values():
            ctx.feature("default=" + pf["default_class"])
            ctx.feature("typ=" + pf["typ_class"])
        if feature_hook:
            feature_hook(ctx, ir, feat, opts)
        one_roundtrip(ctx, op, kind, ir, feat, opts, extra_check)


def replay_roundtrip(prop, op, payload, extra_check=None):
    from .runner import Ctx

    rp = payload["replay"]
    ir = ir_from_jsonable(rp["ir"])
    ctx = Ctx(prop, "quick", 0)
    ctx.case(("replay",))
    one_roundtrip(ctx, op, rp["kind"], ir, rp["feat"], rp["opts"], extra_check)
    return ctx
