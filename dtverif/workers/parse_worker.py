"""Worker: parse N generated definitions and print `case_id sha256(parsed IR)` lines.
The generator depends only on the numeric seed (never on string hashing), so two processes
with different PYTHONHASHSEED must print identical lines if parsing is deterministic."""
import ast
import hashlib
import random
import sys


def main():
    seed, n = int(sys.argv[1]), int(sys.argv[2])
    from dtverif import env

    env.boot()
    from doctrans import parse
    from dtverif.gen_ir import ir_jsonable
    from dtverif.gen_py import gen_class_with_init, gen_function

    rng = random.Random(seed)
    for i in range(n):
        spec = gen_function(rng, force_partial_defaults=(i % 4 == 0), p_default_sentence=0.5 if i % 3 == 2 else 0.0, p_two_announcements=0.15)
        try:
            ir = parse.function(ast.parse(spec.src).body[0])
            out = repr(ir_jsonable(ir))
        except Exception as e:  # the exception type is part of the observable outcome
            out = "EXC " + type(e).__name__
        print("f{} {}".format(i, hashlib.sha256(out.encode()).hexdigest()))
        if i % 5 == 0:
            c = gen_class_with_init(rng)
            try:
                ir = parse.class_(ast.parse(c.src).body[0], merge_inner_function="__init__")
                out = repr(ir_jsonable(ir))
            except Exception as e:
                out = "EXC " + type(e).__name__
            print("c{} {}".format(i, hashlib.sha256(out.encode()).hexdigest()))


if __name__ == "__main__":
    main()
