"""python -m dtverif.replay <replay.json>  -- re-run one recorded case under the same
monitors/oracle and print the discrepancies observed now."""
import json
import sys

from . import env


def main(argv=None):
    argv = argv or sys.argv[1:]
    env.boot()
    with open(argv[0]) as f:
        payload = json.load(f)
    from .runner import load_check

    mod = load_check(payload["property"])
    ctx = mod.replay(payload)
    res = ctx.result()
    print("replayed property={} discrepancies={} (known={})".format(payload["property"], res["n_violations"], sum(res["known"].values())))
    for v in res["violations"]:
        d = v["disc"]
        print("  " + ", ".join("{}={}".format(k, d[k]) for k in sorted(d) if not k.startswith("case_")))
    return 1 if res["n_violations"] else 0


if __name__ == "__main__":
    sys.exit(main())
