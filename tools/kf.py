#!/venv/bin/python
"""Small editor for known_findings.json: kf.py upsert <json-object>"""
import json, sys
p = '/verif/known_findings.json'
d = json.load(open(p))
obj = json.loads(sys.stdin.read())
objs = obj if isinstance(obj, list) else [obj]
for o in objs:
    for f in d['findings']:
        if f['id'] == o['id']:
            f.update(o); break
    else:
        d['findings'].append(o)
json.dump(d, open(p, 'w'), indent=1)
print(len(d['findings']), 'findings')
