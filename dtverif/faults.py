"""Conversion-step failpoints: the j-th call of any public emitter raises InjectedFault."""
from .monitors import InjectedFault


class EmitterFaults:
    def __init__(self, j=None):
        self.j, self.count, self.fired = j, 0, False
        self._undo = []

    def install(self):
        import doctrans.emit as emit

        for name in ("argparse_function", "class_", "function", "docstring"):
            orig = getattr(emit, name)

            def wrapper(*a, __orig=orig, **kw):
                idx = self.count
                self.count += 1
                if self.j is not None and idx == self.j:
                    self.fired = True
                    raise InjectedFault(5, "injected conversion fault at emitter call {}".format(idx))
                return __orig(*a, **kw)

            setattr(emit, name, wrapper)
            self._undo.append((emit, name, orig))
        return self

    def undo(self):
        for m, k, o in self._undo:
            setattr(m, k, o)
        self._undo = []


def fail_emitters(j):
    return EmitterFaults(j).install()
