"""C15 -- dotted locations address exactly one node, the right one.

E: find_in_ast(search, ast_parse(src)) result; RewriteAtQuery(search, marker).visit(tree).
O: differential against an independent resolver over plain `ast`: same node identity
   (type, lineno, col_offset, name) or both None; a replacement changes exactly one node
   and it is that one.  The reference resolver is itself validated against exec +
   attribute lookup for class/function paths.
"""
import ast
import copy

from ..gen_py import gen_module
from ..refmodels import node_id, resolve

PROPERTY = "C15"
LEVEL = "exploration"
SHARDS = {"quick": 4, "thorough": 16}
TIMEOUT = {"quick": 900, "thorough": 3400}
OP = "resolve_location"
RULE = (
    "generated modules (nesting depth <= 3, repeated simple names across scopes, functions before and after classes, "
    "module/class assignments, methods with positional and keyword-only args) x EVERY location that exists in the module "
    "(enumerated completely per module) + sampled non-existent locations; one evaluation = one find_in_ast lookup (and "
    "for existing locations one RewriteAtQuery replacement) compared with the independent resolver; non-trivial = the "
    "location exists; distinct = distinct (module index, path)"
)
ASSUMPTIONS = [
    "the reference resolver (refmodels.resolve, 40 lines over plain ast) is the specification: walk body by name; in a "
    "FunctionDef the last segment names an argument (or annotated local); it is validated against exec + getattr",
    "ambiguous paths (the same dotted path defined twice in one scope) are excluded",
    "held = held on the executions observed",
]
ANCHORS = [
    ("doctrans/ast_utils.py", "find_in_ast"),
    ("doctrans/ast_utils.py", "annotate_ancestry"),
    ("doctrans/ast_utils.py", "RewriteAtQuery.generic_visit"),
    ("doctrans/ast_utils.py", "RewriteAtQuery.visit_FunctionDef"),
]


def loc_features(mod_tree, loc):
    """Generator-level features of a location (what the known-findings predicates key on)."""
    path = loc["path"]
    feats = {"depth": len(path), "target_kind": loc["kind"]}
    # does any FunctionDef precede the target along its path (in any scope walked)?
    cur = mod_tree
    func_before = False
    fn_on_path_before_last = False
    for i, seg in enumerate(path):
        body = getattr(cur, "body", [])
        nxt = None
        for n in body:
            if isinstance(n, (ast.ClassDef, ast.FunctionDef)) and n.name == seg:
                nxt = n
                break
            if isinstance(n, ast.AnnAssign) and isinstance(n.target, ast.Name) and n.target.id == seg:
                nxt = n
                break
            if isinstance(n, ast.Assign) and any(isinstance(t, ast.Name) and t.id == seg for t in n.targets):
                nxt = n
                break
            if isinstance(n, ast.FunctionDef):
                func_before = True
        if nxt is None:
            break
        if isinstance(nxt, ast.FunctionDef):
            break
        cur = nxt
    feats["func_precedes"] = func_before
    names = [n.name for n in ast.walk(mod_tree) if isinstance(n, (ast.FunctionDef, ast.ClassDef))]
    argnames = [a.arg for n in ast.walk(mod_tree) if isinstance(n, ast.FunctionDef) for a in n.args.args + n.args.kwonlyargs]
    last = path[-1]
    feats["last_name_repeated"] = (names + argnames).count(last) > 1
    feats["module_has_function"] = any(isinstance(n, ast.FunctionDef) for n in mod_tree.body)
    # aliasing: annotate_ancestry records only (parent simple name, own name [, arg]); does another
    # node elsewhere in the module carry the same truncated pair as the target?
    tail = tuple(path[-3:]) if loc["kind"].endswith(("arg", "kwarg")) else tuple(path[-2:])
    target_node = resolve(path, mod_tree)[0]
    alias, alias_before = 0, False

    def walk(node, names):
        nonlocal alias, alias_before
        for ch in ast.iter_child_nodes(node):
            nm = getattr(ch, "name", None)
            own = None
            if isinstance(ch, (ast.ClassDef, ast.FunctionDef)):
                own = names + [nm]
            elif isinstance(ch, ast.AnnAssign) and isinstance(ch.target, ast.Name):
                own = names + [ch.target.id]
            elif isinstance(ch, ast.Assign) and ch.targets and isinstance(ch.targets[0], ast.Name):
                own = names + [ch.targets[0].id]
            if own is not None and ch is not target_node and tuple(own[-len(tail):]) == tail and len(own) >= len(tail) and own != path:
                alias += 1
                if getattr(ch, "lineno", 10 ** 9) < getattr(target_node, "lineno", 0):
                    alias_before = True
            if isinstance(ch, ast.FunctionDef):
                for a in ch.args.args + ch.args.kwonlyargs:
                    ap = (names + [nm, a.arg])
                    if a is not target_node and tuple(ap[-len(tail):]) == tail and ap != path:
                        alias += 1
                        if ch.lineno < getattr(target_node, "lineno", 0):
                            alias_before = True
            if isinstance(ch, ast.ClassDef):
                walk(ch, names + [nm])

    if len(path) >= 2 and target_node is not None:
        walk(mod_tree, [])
    # statements inside a compound statement (if/for/with/try) are recorded without their enclosing
    # scope: does one that assigns the addressed simple name occur before the target?
    in_block_before = False
    if target_node is not None:
        for blk in ast.walk(mod_tree):
            if isinstance(blk, (ast.If, ast.For, ast.While, ast.With, ast.Try)):
                for st in ast.walk(blk):
                    nm = st.target.id if isinstance(st, ast.AnnAssign) and isinstance(st.target, ast.Name) else (
                        st.targets[0].id if isinstance(st, ast.Assign) and st.targets and isinstance(st.targets[0], ast.Name) else None)
                    if nm == path[-1] and st is not target_node and getattr(st, "lineno", 10 ** 9) < getattr(target_node, "lineno", 0):
                        in_block_before = True
    feats["same_name_assigned_in_block_before"] = in_block_before
    feats["same_name_as_parent"] = len(path) >= 2 and path[-1] == path[-2]
    feats["aliased_elsewhere"] = alias > 0
    feats["alias_before_target"] = alias_before
    return feats


def validate_reference(ctx, src, locs):
    """exec the module and check class/function paths resolve by attribute lookup."""
    ns = {}
    try:
        exec(compile(src, "<mod>", "exec"), ns)
    except Exception:
        return
    tree = ast.parse(src)
    for l in locs:
        if l["dup"] or ambiguous(l, locs) or l["kind"] not in ("class", "function", "method"):
            continue
        obj = ns
        ok = True
        for seg in l["path"]:
            obj = obj.get(seg) if isinstance(obj, dict) else getattr(obj, seg, None)
            if obj is None:
                ok = False
                break
        node, _, _ = resolve(l["path"], tree)
        ctx.event("reference_validated")
        if ok != (node is not None) or (ok and getattr(obj, "__name__", None) != node.name):
            ctx.inconclusive.append("reference resolver disagrees with exec/getattr on {}".format(".".join(l["path"])))


def one_lookup(ctx, mi, src, loc, exists):
    from doctrans.ast_utils import find_in_ast
    from doctrans.source_transformer import ast_parse

    path = list(loc["path"])
    plain = ast.parse(src)
    ref, _, rkind = resolve(path, plain)
    feats = loc_features(plain, loc) if exists else {"depth": len(path), "target_kind": "nonexistent",
                                                    "func_precedes": any(isinstance(n, ast.FunctionDef) for n in plain.body),
                                                    "module_has_function": any(isinstance(n, ast.FunctionDef) for n in plain.body)}
    base = dict(op=OP, **feats)
    replay = {"src": src, "path": path, "exists": exists}
    try:
        tree = ast_parse(src, skip_docstring_remit=True)
        got = find_in_ast(list(path), tree)
        # ... and parsed the way sync / sync_properties parse a file (docstring re-indentation on): the same node
        got_default = find_in_ast(list(path), ast_parse(src))
    except Exception as e:
        ctx.report_exception(e, base, replay, stage="find")
        return
    ctx.event("find_in_ast")
    if node_id(got_default) != node_id(got):
        ctx.report(dict(base, field="lookup", tag="differs_with_docstring_reindentation", expected=str(node_id(got)), observed=str(node_id(got_default)),
                        param=".".join(path)), replay)
    rid, gid = node_id(ref), node_id(got)
    if rid != gid:
        tag = "not_found" if got is None else ("found_nonexistent" if ref is None else "wrong_node")
        ctx.report(dict(base, field="lookup", tag=tag, expected=str(rid), observed=str(gid), param=".".join(path)), replay)
    from doctrans.ast_utils import RewriteAtQuery

    if not exists and ref is None:
        # a replacement addressed at a location that does not exist changes nothing and says so
        try:
            tree0 = ast_parse(src, skip_docstring_remit=True)
            rw0 = RewriteAtQuery(search=list(path), replacement_node=ast.AnnAssign(
                target=ast.Name("ZQ_MARK", ast.Store()), annotation=ast.Name("int", ast.Load()), value=None, simple=1))
            new0 = ast.fix_missing_locations(rw0.visit(tree0))
        except Exception:
            new0 = None  # refusing is fine
        ctx.event("RewriteAtQuery_nonexistent")
        # the listed pair-label finding: some definition anywhere in the module holds a member of that name, so
        # (parent simple name, own name) equals the last two components of the search
        pairs = set()
        for P in ast.walk(plain):
            if isinstance(P, (ast.ClassDef, ast.FunctionDef)):
                for st in ast.walk(P):
                    if st is P:
                        continue
                    if isinstance(st, (ast.ClassDef, ast.FunctionDef)):
                        pairs.add((P.name, st.name))
                    elif isinstance(st, ast.AnnAssign) and isinstance(st.target, ast.Name):
                        pairs.add((P.name, st.target.id))
                    elif isinstance(st, ast.Assign):
                        pairs.update((P.name, t.id) for t in st.targets if isinstance(t, ast.Name))
                    elif isinstance(st, ast.arg):
                        pairs.add((P.name, st.arg))
        base["alias_before_target"] = len(path) >= 2 and tuple(path[-2:]) in pairs
        if new0 is not None and "ZQ_MARK" in ast.dump(new0):
            ctx.report(dict(base, field="replace", tag="replaced_at_nonexistent_location", replaced_flag=rw0.replaced, expected="unchanged", observed="a node was replaced",
                            param=".".join(path)), replay)
    if not exists or ref is None:
        return
    # replacement: exactly one node, the right one

    try:
        tree2 = ast_parse(src, skip_docstring_remit=True)
        if rkind in ("arg", "kwonlyarg"):
            marker = ast.arg(arg="ZQ_MARK", annotation=None)
        elif rkind == "assign":
            marker = ast.AnnAssign(target=ast.Name("ZQ_MARK", ast.Store()), annotation=ast.Name("int", ast.Load()), value=None, simple=1)
        elif rkind == "class":
            marker = ast.ClassDef(name="ZQ_MARK", bases=[], keywords=[], body=[ast.Pass()], decorator_list=[])
        else:
            return  # replacing a whole FunctionDef is C09/C11's subject (sync); arguments are handled above
        rw = RewriteAtQuery(search=list(path), replacement_node=marker)
        new = rw.visit(tree2)
        ast.fix_missing_locations(new)
    except Exception as e:
        ctx.report_exception(e, base, replay, stage="replace")
        return
    ctx.event("RewriteAtQuery")
    expected = reference_replace(ast.parse(src), path, rkind)
    if ast.dump(new) != ast.dump(expected):
        tag = "not_replaced" if ast.dump(new) == ast.dump(ast.parse(src)) else "replaced_wrong_or_more"
        ctx.report(dict(base, field="replace", tag=tag, replaced_flag=rw.replaced, expected="", observed="", param=".".join(path)), replay)
    elif not rw.replaced:
        ctx.report(dict(base, field="replace", tag="flag_false_but_replaced", expected="True", observed="False", param=".".join(path)), replay)
    if rkind == "arg":
        # the replacement is an annotated assignment that carries the argument's own name and a value (a setting
        # copied onto a parameter): the argument gets the annotation, its OWN default may follow the value, nothing else moves
        try:
            tree3 = ast_parse(src, skip_docstring_remit=True)
            repl = ast.AnnAssign(target=ast.Name(path[-1], ast.Store()), annotation=ast.Name("int", ast.Load()), value=ast.Constant(4242), simple=1)
            rw3 = RewriteAtQuery(search=list(path), replacement_node=repl)
            new3 = ast.fix_missing_locations(rw3.visit(tree3))
            got3 = ast.dump(ast.parse(ast.unparse(new3)))
        except Exception as e:
            ctx.report_exception(e, dict(base, replacement="same_named_setting"), replay, stage="replace")
            return
        ctx.event("RewriteAtQuery_same_named_setting")
        acceptable = []
        for carry in (False, True):
            t = ast.parse(src)
            node, parent, _ = resolve(path, t)
            lst = parent.args.args
            k = lst.index(node) - (len(lst) - len(parent.args.defaults))
            if carry and k >= 0:
                parent.args.defaults[k] = ast.Constant(4242)
            lst[lst.index(node)] = ast.arg(arg=path[-1], annotation=ast.Name("int", ast.Load()))
            acceptable.append(ast.dump(ast.parse(ast.unparse(ast.fix_missing_locations(t)))))
        if got3 not in acceptable:
            ctx.report(dict(base, field="replace", tag="same_named_setting_changed_another_node", replaced_flag=rw3.replaced, expected="", observed="",
                            replacement="same_named_setting", param=".".join(path)), dict(replay, after=ast.unparse(new3)))


def reference_replace(tree, path, rkind):
    node, parent, _ = resolve(path, tree)
    if rkind in ("arg", "kwonlyarg"):
        lst = parent.args.args if rkind == "arg" else parent.args.kwonlyargs
        lst[lst.index(node)] = ast.arg(arg="ZQ_MARK", annotation=None)
    else:
        body = parent.body
        if rkind == "assign":
            body[body.index(node)] = ast.AnnAssign(target=ast.Name("ZQ_MARK", ast.Store()), annotation=ast.Name("int", ast.Load()), value=None, simple=1)
        else:
            body[body.index(node)] = ast.ClassDef(name="ZQ_MARK", bases=[], keywords=[], body=[ast.Pass()], decorator_list=[])
    return ast.fix_missing_locations(tree)


def splice_then_replace(ctx, mi, src, locs):
    """A node taken from ANOTHER annotated tree is spliced in at location b, the tree is annotated
    again, then location a (where that node came from) is replaced: a's own node must be hit."""
    import copy

    from doctrans.ast_utils import RewriteAtQuery, annotate_ancestry
    from doctrans.source_transformer import ast_parse

    cands = [l for l in locs if l["kind"] in ("annassign", "attr_annassign") and not ambiguous(l, locs)
             and not l.get("redeclared_in_block")]
    # (different scopes: in one scope the spliced copy and its origin would share one location)
    pairs = [(a, b) for a in cands for b in cands if a is not b and b["lineno"] < a["lineno"] and a["path"][:-1] != b["path"][:-1]]
    if not pairs:
        return
    a, b = ctx.rng.choice(pairs)
    plain = ast.parse(src)
    fa, fb = loc_features(plain, a), loc_features(plain, b)
    if any(f.get(k) for f in (fa, fb) for k in ("func_precedes", "alias_before_target", "same_name_assigned_in_block_before", "same_name_as_parent")) \
            or fa["depth"] >= 3 or fb["depth"] >= 3:
        return  # the single replacements themselves are listed findings there
    base = dict(op=OP, sequence="splice_reannotate_replace", depth=fa["depth"], target_kind=a["kind"], dest_depth=fb["depth"])
    replay = {"src": src, "path": a["path"], "dest": b["path"], "exists": True, "sequence": True}
    try:
        donor = ast_parse(src, skip_docstring_remit=True)
        tree = ast_parse(src, skip_docstring_remit=True)
        from doctrans.ast_utils import find_in_ast

        node_a = find_in_ast(list(a["path"]), donor)
        if node_a is None:
            return
        rw1 = RewriteAtQuery(search=list(b["path"]), replacement_node=copy.deepcopy(node_a))
        tree = rw1.visit(tree)
        annotate_ancestry(tree)
        marker = ast.AnnAssign(target=ast.Name("ZQ_MARK", ast.Store()), annotation=ast.Name("int", ast.Load()), value=None, simple=1)
        rw2 = RewriteAtQuery(search=list(a["path"]), replacement_node=marker)
        tree = rw2.visit(tree)
        ast.fix_missing_locations(tree)
    except Exception as e:
        ctx.report_exception(e, base, replay, stage="splice_sequence")
        return
    ctx.event("splice_sequences")
    exp = ast.parse(src)
    na, pa, _ = resolve(a["path"], exp)
    nb, pb, _ = resolve(b["path"], exp)
    pb.body[pb.body.index(nb)] = copy.deepcopy(na)
    pa.body[pa.body.index(na)] = ast.AnnAssign(target=ast.Name("ZQ_MARK", ast.Store()), annotation=ast.Name("int", ast.Load()), value=None, simple=1)
    ast.fix_missing_locations(exp)
    if ast.dump(tree) != ast.dump(exp):
        ctx.report(dict(base, field="replace", tag="second_replacement_hit_another_node", param=".".join(a["path"]),
                        expected=ast.unparse(exp)[:200], observed=ast.unparse(tree)[:200]), replay)


def ambiguous(loc, locs):
    """the path, or any prefix of it, is defined more than once in its scope"""
    dups = [l["path"] for l in locs if l["dup"]]
    return any(d == loc["path"][: len(d)] for d in dups)


def run(ctx):
    ctx.require("find_in_ast", 200)
    ctx.require("RewriteAtQuery", 50)
    ctx.require("reference_validated", 20)
    n_mod = ctx.n(240, 9000)
    for mi in range(n_mod):
        m = gen_module(ctx.rng)
        src, locs = m["src"], m["locations"]
        validate_reference(ctx, src, locs)
        for loc in locs:
            if ambiguous(loc, locs):
                continue
            ctx.case((mi, ctx.shard[0], tuple(loc["path"])), nontrivial=True,
                     sample={"path": ".".join(loc["path"]), "kind": loc["kind"], "module": src[:600]}, sample_key=loc["kind"])
            ctx.feature("kind=" + loc["kind"])
            ctx.feature("depth={}".format(len(loc["path"])))
            one_lookup(ctx, mi, src, loc, True)
        splice_then_replace(ctx, mi, src, locs)
        # non-existent locations: mutate an existing path
        for _ in range(3):
            if not locs:
                break
            pick = ctx.rng.choice(locs)
            if ambiguous(pick, locs):
                continue
            base_path = list(pick["path"])
            how = ctx.rng.random()
            tops = [l["path"][0] for l in locs if len(l["path"]) == 1 and l["kind"] in ("class", "function")]
            leaves = [l["path"][-1] for l in locs if l["kind"] in ("assign", "annassign")]
            if how < 0.25 and tops and leaves:
                # a module-level name read as if it were a member of a definition that does not hold it
                base_path = [ctx.rng.choice(tops), ctx.rng.choice(leaves)]
            elif how < 0.4:
                base_path[-1] = base_path[-1] + "_zqmissing"
            elif how < 0.7:
                base_path = ["ZqNoSuch"] + base_path[1:]
            else:
                base_path = base_path + ["zq_extra"]
            if resolve(base_path, ast.parse(src))[0] is not None:
                continue
            ctx.case((mi, ctx.shard[0], tuple(base_path), "x"), nontrivial=False)
            ctx.feature("nonexistent")
            one_lookup(ctx, mi, src, {"path": base_path, "kind": "nonexistent"}, False)
    ctx.note("locations_enumerated_completely_per_module", True)


def replay(payload):
    from ..runner import Ctx

    rp = payload["replay"]
    ctx = Ctx(PROPERTY, "quick", 0)
    ctx.case(("replay",))
    kind = payload["discrepancy"].get("target_kind", "nonexistent")
    one_lookup(ctx, 0, rp["src"], {"path": rp["path"], "kind": kind}, rp["exists"])
    return ctx
