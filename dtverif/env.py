"""Process bootstrap: third-party deps, the `meta` first-import shim, and the guarantee
that `doctrans` is imported from /repo's *current working tree*."""
import os
import subprocess
import sys

HERE = os.path.dirname(os.path.abspath(__file__))
ROOT = os.path.dirname(HERE)  # the /verif checkout (or a `vp run` snapshot of it)
DEPS = os.path.join(ROOT, ".deps")
REPO = os.environ.get("DTVERIF_REPO", "/repo")
WHEELS = "/opt/veriftools/wheels"
PY = sys.executable


def ensure_deps():
    """Install icontract/deal/jsonschema offline next to this checkout if absent."""
    marker = os.path.join(DEPS, "icontract")
    marker2 = os.path.join(DEPS, "jsonschema")
    if not (os.path.isdir(marker) and os.path.isdir(marker2)):
        subprocess.run(
            [
                PY, "-m", "pip", "install", "-q", "--no-index", "--find-links", WHEELS,
                "--target", DEPS, "icontract", "deal", "jsonschema",
            ],
            check=True,
            stdout=subprocess.DEVNULL,
            stderr=subprocess.DEVNULL,
        )
    if DEPS not in sys.path:
        sys.path.append(DEPS)  # appended: never shadows /venv's own packages


_booted = False


def boot():
    """Idempotent. Returns the imported `doctrans` package."""
    global _booted
    ensure_deps()
    # The repo is installed editable in /venv; make the working tree win regardless.
    if REPO not in sys.path:
        sys.path.insert(0, REPO)
    if not _booted:
        # `meta` 1.0.2 raises on its FIRST import under CPython 3.12 and works afterwards
        # (see DESIGN 2.8).  The repository's own tests rely on the same absorption.
        try:
            import meta  # noqa: F401
        except Exception:
            pass
        try:
            import meta.asttools  # noqa: F401
        except Exception:
            pass
        _booted = True
    import doctrans

    real = os.path.realpath(os.path.dirname(doctrans.__file__))
    want = os.path.realpath(os.path.join(REPO, "doctrans"))
    if real != want:
        raise SystemExit(
            "INCONCLUSIVE reason=doctrans imported from {} not {}".format(real, want)
        )
    return doctrans


def child_env(extra=None):
    """Environment for worker subprocesses."""
    e = dict(os.environ)
    e["PYTHONPATH"] = os.pathsep.join(
        [ROOT, REPO] + ([e["PYTHONPATH"]] if e.get("PYTHONPATH") else [])
    )
    e.setdefault("PYTHONHASHSEED", "0")
    e["PYTHONDONTWRITEBYTECODE"] = "1"
    if extra:
        e.update(extra)
    return e
