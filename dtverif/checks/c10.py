"""C10 -- sync is idempotent, never edits the truth, and reports changes truthfully.

E: history snap0, run1(report1, stdout1), snap1, run2(...), snap2, ... with the same or
   alternating truth kinds; audit-hook open events per run.
O: snap_{i+1} == snap_i for every run after the first with unchanged truth; the truth file's
   bytes never change and it is never opened in a write mode; report[file] is True <=> the
   file's bytes changed; a stdout line `modified f` => f changed, `unchanged f` => it did
   not; the number of definitions with the target's name never grows across repeated runs.
"""
import os
import shutil
import tempfile

from ..syncsim import DEF_NAME, KINDS, PRESTATES, count_definitions, make_project, run_api, run_cli

PROPERTY = "C10"
LEVEL = "exploration"
SHARDS = {"quick": 6, "thorough": 16}
TIMEOUT = {"quick": 900, "thorough": 3400}
OP = "sync_history"
RULE = (
    "each third history ends with the truth named second after a missing file of its kind (truth bytes must not change); histories of 2..4 sync invocations (same truth repeated; or truth kind switched mid-history and then repeated) over "
    "generated projects starting from every combination of target pre-states (the 3 x 25 x 2 product is cycled through), "
    "a third of the projects named through a symlinked directory, half with hand-written comments above existing definitions; "
    "API runs under the audit hook + CLI runs on a sample; one evaluation = one history; byte snapshots between runs; "
    "non-trivial = the first run had something to change; distinct = distinct (truth sequence, pre-states, method, IR shape)"
)
ASSUMPTIONS = [
    "byte snapshots (sha256) of every file in the scratch project decide 'changed'",
    "sys.addaudithook `open` events decide 'opened for writing' (API runs; CLI runs are judged by bytes only)",
    "held = held on the executions observed",
]
ANCHORS = [
    ("doctrans/conformance.py", "_conform_filename"),
    ("doctrans/conformance.py", "ground_truth"),
    ("doctrans/emit.py", "file"),
    ("doctrans/ast_utils.py", "find_in_ast"),
]


def check_run(ctx, p, res, base, replay, run_no, truth_changed_before, via, streak):
    b = dict(base, run_no=run_no, first_after_truth_change=truth_changed_before)
    for f in list(streak):
        if f not in res["changed"]:
            streak[f] = 0
    for f in res["changed"]:
        streak[f] = streak.get(f, 0) + 1
    truth_base = os.path.basename(p.files[p.truth])
    changed = res["changed"]
    if via == "api" and res["exc"] is not None:
        ctx.event("runs_raised")
        ctx.report_exception(res["exc"], b, replay, stage="sync")
    if via == "cli" and res["rc"] != 0:
        ctx.event("runs_raised")
        last = (res["stderr"].strip().split("\n") or [""])[-1]
        ctx.report(dict(b, field="raises", stage="sync", exc=last.split(":")[0][:40], exc_in="cli", msg=last[:160]), replay)
    # (2) the truth is never modified nor opened for writing
    if truth_base in changed:
        ctx.report(dict(b, field="truth_file", tag="bytes_" + changed[truth_base], expected="untouched", observed=changed[truth_base]), replay)
    if via == "api":
        for ev in res["audit"]:
            if ev[1] == truth_base and ev[3] == "w":
                ctx.report(dict(b, field="truth_file", tag="opened_for_writing", expected="read-only", observed=str(ev)), replay)
                break
        ctx.event("audit_events", len(res["audit"]))
    # (1) idempotence
    if run_no > 1 and not truth_changed_before and changed:
        for f, how in changed.items():
            kind = next(k for k in p.files if os.path.basename(p.files[k]) == f)
            ctx.report(dict(b, field="idempotence", tag="file_" + how + "_again", file_kind=kind, file_pre=p.pre[kind],
                            file_is_truth=kind == p.truth, file_func_before=p.features.get(kind + "_func_before", False),
                            file_is_method=p.method and kind == "function", consecutive_changes=streak.get(f, 1),
                            expected="byte-identical to previous run", observed=how), replay)
    # (3) truthful report
    if via == "api" and res["report"] is not None:
        for path, flag in res["report"].items():
            f = os.path.basename(path)
            kind = next((k for k in p.files if os.path.basename(p.files[k]) == f), None)
            really = f in changed
            ctx.event("report_entries_checked")
            if bool(flag) != really:
                ctx.report(dict(b, field="report", tag="says_changed_but_identical" if flag else "says_unchanged_but_changed",
                                file_kind=kind, file_is_truth=kind == p.truth, file_pre=p.pre.get(kind),
                                expected=str(really), observed=str(flag)), replay)
    for line in (res["stdout"] or "").split("\n"):
        parts = line.split("\t")
        if len(parts) == 2 and parts[0] in ("modified", "unchanged"):
            f = os.path.basename(parts[1])
            ctx.event("stdout_lines_checked")
            if (parts[0] == "modified") != (f in changed):
                ctx.report(dict(b, field="stdout", tag="says_" + parts[0] + "_but_not", expected=str(f in changed), observed=parts[0]), replay)


def one_history(ctx, i, tmproot):
    rng = ctx.case_rng(i)
    root = tempfile.mkdtemp(prefix="h", dir=tmproot)
    try:
        truth = KINDS[i % 3]
        others = [k for k in KINDS if k != truth]
        pre = {others[0]: PRESTATES[(i // 3) % 5], others[1]: PRESTATES[(i // 15) % 5]}
        method = (i // 75) % 2 == 1
        rich = i % 2 == 1
        via_symlink = rng.random() < 0.35  # every file is named through a symlinked directory
        hand_written = rng.random() < 0.5
        crlf = rng.random() < 0.4
        edge_edit = (not crlf) and rng.random() < 0.5
        p = make_project(rng, root, truth, pre, method=method, rich=rich, via_symlink=via_symlink, hand_written=hand_written, crlf_files=crlf, tilde_ok=True)
        switch = i % 4 == 3  # switch the truth kind mid-history
        length = 2 + i % 3
        via = "cli" if i % 9 == 4 else "api"
        truths = [truth] * length
        if switch:
            truths = [truth, truth] + [others[0]] * 2
        base = {"op": OP, "truth0": truth, "switch": switch, "method": method, "rich": rich, "via": via, "via_symlink": via_symlink, "hand_written": hand_written, "crlf_files": sorted(p.features.get("crlf_files", [])),
                "pre_states": sorted(set(pre.values())), "length": len(truths),
                "truth_func_before": p.features.get(truth + "_func_before", False),
                "some_file_has_param_named_like_target": p.features.get("some_file_has_param_named_like_target", False)}
        replay = {"case": i, "seed": ctx.seed, "tier": ctx.tier, "pre": pre, "truths": truths,
                  "files": {os.path.basename(f): (open(f).read() if os.path.exists(f) else None) for f in p.files.values()}}
        ctx.case((tuple(truths), tuple(sorted(pre.items())), method, rich, via, i), nontrivial=any(s != "agreeing" for s in pre.values()),
                 sample={"truths": truths, "pre": pre, "method": method, "via": via}, sample_key=(switch, via))
        ctx.feature("length={}".format(len(truths)))
        ctx.feature("switch" if switch else "same_truth")
        ctx.feature("named_via_symlink" if via_symlink else "named_directly")
        ctx.feature("hand_written" if hand_written else "emitter_formatted")
        if p.features.get("crlf_files"):
            ctx.feature("some_files_with_crlf_line_endings")
        counts_prev = None
        prev_truth = None
        streak = {}
        for run_no, t in enumerate(truths, 1):
            p.truth = t
            converted = False
            if edge_edit and run_no == 3:
                # a hand edit that only touches the blank space at the very start / end of every target file
                how = ("strip_final_newline", "extra_blank_lines_at_end", "blank_lines_at_start")[i % 3]
                for k_, f in p.files.items():
                    if k_ != t and os.path.isfile(f):
                        with open(f, "rb") as fh:
                            b = fh.read()
                        if b.strip():
                            b2 = {"strip_final_newline": b.rstrip(b"\n"), "extra_blank_lines_at_end": b + b"\n\n\n",
                                  "blank_lines_at_start": b"\n\n" + b}[how]
                            with open(f, "wb") as fh:
                                fh.write(b2)
                converted = True
                ctx.event("edge_whitespace_edited_between_runs")
                ctx.feature("edge_whitespace_edit=" + how)
            if crlf and run_no == 3:
                # the working copy is checked out again with CRLF line endings (autocrlf): an external edit
                for f in p.files.values():
                    if os.path.isfile(f):
                        with open(f, "rb") as fh:
                            b = fh.read()
                        with open(f, "wb") as fh:
                            fh.write(b.replace(b"\r\n", b"\n").replace(b"\n", b"\r\n"))
                converted = True
                ctx.event("line_endings_converted_between_runs")
            res = run_api(p) if via == "api" else run_cli(p)
            ctx.event("sync_runs:" + via)
            check_run(ctx, p, res, dict(base, truth=t, line_endings_converted_before_run=converted), replay, run_no,
                      truth_changed_before=(prev_truth is not None and prev_truth != t) or converted, via=via, streak=streak)
            # (4) growth
            counts = {k: count_definitions(p.files[k], p.def_name[k]) for k in p.files}
            if counts_prev is not None and prev_truth == t:
                for k in counts:
                    if counts[k] > counts_prev[k] >= 0:
                        ctx.report(dict(base, truth=t, run_no=run_no, field="growth", tag="definition_appended_again", file_kind=k,
                                        file_pre=p.pre[k], file_is_method=p.method and k == "function",
                                        file_func_before=p.features.get(k + "_func_before", False),
                                        expected=str(counts_prev[k]), observed=str(counts[k])), replay)
            counts_prev, prev_truth = counts, t
        if i % 3 == 1 and os.path.isfile(p.files[truths[-1]]):
            # the truth named SECOND for its kind, after a file that is not there: whatever the command line makes
            # of that (today: rejected), the file the user calls the truth keeps its bytes
            flag = {"argparse_function": "--argparse-function", "class": "--class", "function": "--function"}
            t = truths[-1]
            p.truth = t
            argv = ["sync", "--truth", t]
            for k in p.files:
                if k == t:
                    argv += [flag[k], os.path.join(os.path.dirname(p.files[k]), "zq_not_there_" + os.path.basename(p.files[k]))]
                argv += [flag[k], p.files[k], flag[k] + "-name", p.names[k]]
            if hand_written or rng.random() < 0.5:
                with open(p.files[t], "a") as fh:
                    fh.write("\n\nZQ_HAND = \"double quoted zq\"  # a hand-written line\n")
            with open(p.files[t], "rb") as fh:
                truth_bytes = fh.read()
            res = run_cli(p, argv=argv)
            ctx.event("runs_with_truth_listed_after_a_missing_file")
            with open(p.files[t], "rb") as fh:
                truth_after = fh.read()
            if truth_after != truth_bytes:
                ctx.report(dict(base, truth=t, run_no=len(truths) + 1, field="truth_file", tag="truth_modified_when_listed_after_a_missing_file",
                                expected="byte-identical", observed="changed (exit status {})".format(res["rc"])), replay)
        ctx.event("histories")
    finally:
        shutil.rmtree(root, ignore_errors=True)
        if os.path.islink(root.rstrip(os.sep) + "_lnk"):
            os.unlink(root.rstrip(os.sep) + "_lnk")


def run(ctx):
    ctx.require("histories", 20)
    ctx.require("report_entries_checked", 20)
    ctx.require("audit_events", 20)
    n = ctx.n(150, 5000)
    tmproot = tempfile.mkdtemp(prefix="dtverif-c10-")
    try:
        for j in range(n):
            one_history(ctx, j * ctx.shard[1] + ctx.shard[0], tmproot)
    finally:
        shutil.rmtree(tmproot, ignore_errors=True)


def replay(payload):
    from ..runner import Ctx

    rp = payload["replay"]
    ctx = Ctx(PROPERTY, rp.get("tier", "quick"), rp.get("seed", 0))
    tmproot = tempfile.mkdtemp(prefix="dtverif-c10-")
    try:
        one_history(ctx, rp["case"], tmproot)
    finally:
        shutil.rmtree(tmproot, ignore_errors=True)
    return ctx
