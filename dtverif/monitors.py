"""Instrumentation attached from the harness (no repository edits):

* Taps           -- wrap module attributes of doctrans, count/record call -> return/raise
* AnchorCoverage -- sys.monitoring LINE events proving the anchored mechanism was reached
* AuditLog       -- sys.addaudithook recorder for file-system events below a scratch root
* snapshot_dir   -- {relative path: (sha256, size)} byte snapshots
* FailOpen       -- replacement `open` injecting faults at the k-th write-mode open
"""
import ast
import builtins
import collections
import functools
import hashlib
import os
import sys
import threading

from .env import REPO

# ------------------------------------------------------------------------------ taps


class Taps:
    """Wrap `module.attr` for a list of (module, attr).  Every doctrans module whose
    attribute *is* the original function is rebound too, so `from m import f` bindings do
    not bypass the tap.  Zero hits on a deciding tap => the run is inconclusive."""

    def __init__(self):
        self.hits = collections.Counter()
        self.raised = collections.Counter()
        self.trace = []
        self.keep_trace = False
        self._undo = []
        self.listeners = collections.defaultdict(list)  # name -> [fn(args, kwargs, result, exc)]

    def tap(self, module, attr, name=None):
        orig = getattr(module, attr)
        label = name or "{}.{}".format(module.__name__.replace("doctrans.", ""), attr)
        taps = self

        @functools.wraps(orig)
        def wrapper(*a, **kw):
            taps.hits[label] += 1
            try:
                res = orig(*a, **kw)
            except BaseException as e:
                taps.raised[label] += 1
                if taps.keep_trace:
                    taps.trace.append((label, "raise", type(e).__name__))
                for fn in taps.listeners.get(label, ()):
                    fn(a, kw, None, e)
                raise
            if taps.keep_trace:
                taps.trace.append((label, "return", None))
            for fn in taps.listeners.get(label, ()):
                fn(a, kw, res, None)
            return res

        wrapper.__dtverif_orig__ = orig
        for modname, mod in list(sys.modules.items()):
            if mod is None or not (modname == "doctrans" or modname.startswith("doctrans.")):
                continue
            for k, v in list(vars(mod).items()):
                if v is orig:
                    setattr(mod, k, wrapper)
                    self._undo.append((mod, k, orig))
        return wrapper

    def listen(self, label, fn):
        self.listeners[label].append(fn)

    def undo(self):
        for mod, k, orig in reversed(self._undo):
            setattr(mod, k, orig)
        self._undo.clear()


# ------------------------------------------------------------------------------ anchors


def function_lines(relpath, qualnames):
    """{qualname: set(executable statement-start lines)} from the CURRENT tree."""
    path = os.path.join(REPO, relpath)
    with open(path) as f:
        tree = ast.parse(f.read())
    out = {}

    def visit(node, prefix):
        for child in ast.iter_child_nodes(node):
            if isinstance(child, (ast.FunctionDef, ast.AsyncFunctionDef, ast.ClassDef)):
                q = prefix + child.name
                if q in qualnames:
                    lines = set()
                    for sub in ast.walk(child):
                        if isinstance(sub, ast.stmt) and sub is not child:
                            # skip docstring expression statements
                            if (
                                isinstance(sub, ast.Expr)
                                and isinstance(sub.value, ast.Constant)
                                and isinstance(sub.value.value, str)
                            ):
                                continue
                            lines.add(sub.lineno)
                    out[q] = lines
                visit(child, q + ".")

    visit(tree, "")
    return out


class AnchorCoverage:
    """anchors: list of (relpath, qualname).  Uses sys.monitoring (3.12) LINE events and
    returns DISABLE after the first hit of each location, so the cost is negligible."""

    TOOL = 4

    def __init__(self, anchors):
        self.anchors = list(anchors)
        self.by_file = collections.defaultdict(set)
        for rel, q in self.anchors:
            self.by_file[rel].add(q)
        self.lines = {}  # (rel, q) -> set(lines)
        self.file_line_owner = {}  # abs path -> {line: (rel,q)}
        for rel, qs in self.by_file.items():
            fl = function_lines(rel, qs)
            for q in qs:
                self.lines[(rel, q)] = fl.get(q, set())
            owner = {}
            for q, ls in fl.items():
                for l in ls:
                    owner.setdefault(l, (rel, q))
            self.file_line_owner[os.path.realpath(os.path.join(REPO, rel))] = owner
        self.hit = collections.defaultdict(set)
        self.active = False

    def start(self):
        mon = sys.monitoring
        try:
            mon.use_tool_id(self.TOOL, "dtverif-anchors")
        except ValueError:
            return  # already in use (nested); stay passive
        self.active = True

        def on_line(code, line):
            owner = self.file_line_owner.get(code.co_filename)
            if owner is None:
                owner = self.file_line_owner.get(os.path.realpath(code.co_filename))
            if owner is not None:
                key = owner.get(line)
                if key is not None:
                    self.hit[key].add(line)
            return mon.DISABLE

        mon.register_callback(self.TOOL, mon.events.LINE, on_line)
        mon.set_events(self.TOOL, mon.events.LINE)

    def stop(self):
        if not self.active:
            return
        mon = sys.monitoring
        mon.set_events(self.TOOL, 0)
        mon.register_callback(self.TOOL, mon.events.LINE, None)
        mon.free_tool_id(self.TOOL)
        self.active = False

    def report(self):
        rep = {}
        for key in self.anchors:
            rel, q = key
            rep["{}:{}".format(rel, q)] = {
                "lines_hit": sorted(self.hit.get(key, ())),
                "lines_executable": len(self.lines.get(key, ())),
            }
        return rep


# ------------------------------------------------------------------------------ files


def snapshot_dir(root):
    snap = {}
    for dp, dns, fns in os.walk(root):
        dns[:] = [d for d in dns if d != "__pycache__"]
        for fn in fns:
            p = os.path.join(dp, fn)
            try:
                with open(p, "rb") as f:
                    b = f.read()
            except OSError:
                continue
            snap[os.path.relpath(p, root)] = (hashlib.sha256(b).hexdigest(), len(b))
    return snap


def diff_snap(a, b):
    """-> dict path -> 'created'|'deleted'|'changed'"""
    out = {}
    for p in set(a) | set(b):
        if p not in a:
            out[p] = "created"
        elif p not in b:
            out[p] = "deleted"
        elif a[p] != b[p]:
            out[p] = "changed"
    return out


class AuditLog:
    """Process-wide audit hook (cannot be removed), filtered on a mutable root."""

    _installed = None

    def __init__(self):
        self.root = None
        self.roots = []
        self.events = []
        self.lock = threading.Lock()

    @classmethod
    def get(cls):
        if cls._installed is None:
            inst = cls()
            sys.addaudithook(inst._hook)
            cls._installed = inst
        return cls._installed

    def _hook(self, event, args):
        root = self.root
        if root is None:
            return
        if event == "open":
            path, mode, flags = args[0], args[1], args[2]
            if isinstance(path, (str, bytes)) :
                p = os.fsdecode(path)
                root = next((r for r in self.roots if p.startswith(r + os.sep)), None)
                if root is not None:
                    write = bool(flags & (os.O_WRONLY | os.O_RDWR | os.O_APPEND | os.O_CREAT | os.O_TRUNC)) if isinstance(flags, int) else any(c in (mode or "") for c in "wax+")
                    self.events.append(("open", os.path.relpath(p, root), mode, "w" if write else "r"))
        elif event in ("os.rename", "os.remove", "os.truncate", "os.unlink", "shutil.move", "os.rmdir", "os.mkdir"):
            try:
                p = os.fsdecode(args[0])
            except Exception:
                return
            root = next((r for r in self.roots if p.startswith(r + os.sep)), None)
            if root is not None:
                self.events.append((event, os.path.relpath(p, root), None, "w"))

    def begin(self, root, aliases=()):
        self.root = os.path.realpath(root)
        self.roots = [self.root] + [a.rstrip(os.sep) for a in aliases]
        self.events = []

    def end(self):
        ev = self.events
        self.root = None
        self.events = []
        return ev


# ------------------------------------------------------------------------------ faults


class InjectedFault(OSError):
    pass


class InjectedNonOSFault(MemoryError):
    """A failure during a write that is NOT an OSError (out of memory, an encoding error, an interrupt)."""


class _FaultyFile:
    def __init__(self, real, mode, owner):
        self._f, self._mode, self._o = real, mode, owner

    def write(self, data):
        if self._mode == "at_close":
            # a buffered write: nothing reaches the disk until the file is flushed / closed
            self.__dict__.setdefault("_buffered", []).append(data)
            return len(data)
        if self._mode == "before_write":
            self._o.fired = True
            raise InjectedFault(28, "injected ENOSPC before first write")
        if self._mode in ("mid_write", "mid_write_non_os_error"):
            half = data[: max(1, len(data) // 2)]
            self._f.write(half)
            self._f.flush()
            self._o.fired = True
            if self._mode == "mid_write_non_os_error":
                raise InjectedNonOSFault("injected failure mid write that is not an OSError")
            raise InjectedFault(28, "injected ENOSPC mid write")
        return self._f.write(data)

    def fileno(self):
        # zero-copy writers (shutil's sendfile path) ask for the descriptor instead of calling write():
        # the fault strikes there (the file has been opened -- and truncated -- but nothing has arrived)
        self._o.fired = True
        if getattr(self._o, "crash", False):
            os._exit(137)
        raise InjectedFault(28, "injected ENOSPC at the first descriptor-level write")

    def __enter__(self):
        return self

    def __exit__(self, *a):
        self.close()
        return False

    def flush(self):
        if self._mode == "at_close":
            self._fail_at_close()
        return self._f.flush()

    def close(self):
        if self._mode == "at_close" and not self._f.closed:
            self._fail_at_close()
        return self._f.close()

    def _fail_at_close(self):
        # the deferred write fails (disk full, quota, ...): the buffered data never arrives
        self._f.close()
        self._o.fired = True
        raise InjectedFault(28, "injected ENOSPC at flush/close")

    def __getattr__(self, k):
        return getattr(self._f, k)


class FailOpen:
    """Replacement for `open` bound into doctrans modules.  Counts write-mode opens; at the
    k-th one injects `mode` in {"before_open","before_write","mid_write","at_close"}; with
    `crash=True` calls os._exit(137) instead of raising (subprocess mode)."""

    def __init__(self, k=None, mode=None, crash=False, root=None, persistent=False):
        self.k, self.mode, self.crash, self.root = k, mode, crash, root
        # persistent: the condition behind the fault stays (disk full, quota): once it has struck, every later
        # write-mode open still succeeds (and truncates), and every write to it fails
        self.persistent = persistent
        self.count = 0
        self.fired = False
        self.opened = []

    def __call__(self, file, mode="r", *a, **kw):
        is_write = any(c in mode for c in "wax+")
        inside = self.root is None or os.path.realpath(str(file)).startswith(self.root)
        if is_write and inside:
            idx = self.count
            self.count += 1
            self.opened.append((os.path.basename(str(file)), mode))
            if self.persistent and self.fired and not self.crash:
                self.later_opens = getattr(self, "later_opens", 0) + 1
                return _FaultyFile(builtins.open(file, mode, *a, **kw), "before_write", self)
            if self.k is not None and idx == self.k:
                if self.mode == "before_open":
                    self.fired = True
                    if self.crash:
                        os._exit(137)
                    raise InjectedFault(28, "injected ENOSPC before open")
                real = builtins.open(file, mode, *a, **kw)
                if self.crash:
                    return _CrashFile(real, self.mode, self)
                return _FaultyFile(real, self.mode, self)
        return builtins.open(file, mode, *a, **kw)


class _CrashFile(_FaultyFile):
    def _fail_at_close(self):
        os._exit(137)

    def write(self, data):
        if self._mode == "at_close":
            return len(data)  # still in the buffer when the process dies
        if self._mode == "before_write":
            os._exit(137)
        half = data[: max(1, len(data) // 2)]
        self._f.write(half)
        self._f.flush()
        os._exit(137)


def bind_open(fail_open, modules):
    """Bind `fail_open` as the name `open` in each module's namespace; returns undo()."""
    saved = []
    for m in modules:
        had = "open" in vars(m)
        saved.append((m, had, vars(m).get("open")))
        m.open = fail_open

    def undo():
        for m, had, old in saved:
            if had:
                m.open = old
            else:
                try:
                    del m.open
                except AttributeError:
                    pass

    return undo
