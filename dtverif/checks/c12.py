"""C12 -- output is a deterministic function of the input.

E: lines `idx name sha256(output)` printed by a fixed conversion script in separate
   processes under a PYTHONHASHSEED sweep; in further processes the same conversions run in
   shuffled orders with repetitions; and single conversions run alone in a fresh process.
O: identical digest per conversion across all hash seeds; every output of a shuffled /
   repeated run equals the digest produced when that conversion ran ALONE in a fresh
   process (catches state kept on function objects or module globals).
"""
import subprocess
import sys
from concurrent.futures import ThreadPoolExecutor

from .. import env

PROPERTY = "C12"
LEVEL = "exploration"
SHARDS = {"quick": 1, "thorough": 1}
TIMEOUT = {"quick": 900, "thorough": 3400}
RULE = (
    "a seed-determined list of conversions (7 emitters + re-parse on generated IRs, parse.function / parse.class_ merge "
    "on generated, partially documented definitions) executed (a) in index order in fresh processes under PYTHONHASHSEED "
    "in a sweep (0..N and 'random'), (b) in shuffled orders with repetition in further processes, (c) a sample of "
    "conversions each ALONE in its own fresh process; one evaluation = one digest comparison; non-trivial = every "
    "conversion; distinct = distinct (conversion, process configuration)"
)
ASSUMPTIONS = [
    "black/ast.unparse are deterministic for a fixed version",
    "the workload generator depends only on the numeric seed (random.Random), never on string hashing",
    "held = held on the executions observed",
]
ANCHORS = []  # the deciding events happen in worker processes; coverage is reported via counters


def worker(args, hashseed, timeout=1200):
    cmd = [sys.executable, "-m", "dtverif.workers.convert_worker"] + [str(a) for a in args]
    p = subprocess.run(cmd, cwd=env.ROOT, env=env.child_env({"PYTHONHASHSEED": str(hashseed)}), capture_output=True,
                       text=True, timeout=timeout)
    if p.returncode != 0:
        raise RuntimeError("worker {} failed: {}".format(args, p.stderr[-400:]))
    out = []
    for l in p.stdout.strip().split("\n"):
        if l:
            idx, name, dig = l.split(" ")
            out.append((int(idx), name, dig))
    return out


def call_order_extract_default(ctx):
    """extract_default is a function of its arguments: the same call gives the same result whatever calls
    (with whatever flags) ran before it in the process."""
    from doctrans.defaults_utils import extract_default

    victims = ["learning rate. Defaults to 5. Must be positive", "the zq_a setting. Defaults to 0.5. Used by the trainer",
               "shape of it. Defaults to (1, 2). Then more prose", "name. Defaults to zq_val. Trailing words here"]
    polluters = ["shape. Defaults to (1, 2)", "table. Defaults to {'a': [1, 2]}", "items. Defaults to [1, (2, 3)", "plain. Defaults to 7"]
    flags = [dict(rstrip_default=r, emit_default_doc=e) for r in (True, False) for e in (True, False)]
    fresh = {(v, i): repr(extract_default(v, **f)) for v in victims for i, f in enumerate(flags)}
    for pl in polluters:
        for pf in flags:
            try:
                extract_default(pl, **pf)
            except Exception:
                pass
            for v in victims:
                for i, f in enumerate(flags):
                    ctx.case(("call_order", pl, str(pf), v, i), nontrivial=True)
                    ctx.event("call_order_pairs_compared")
                    got = repr(extract_default(v, **f))
                    if got != fresh[(v, i)]:
                        ctx.report({"op": "call_order", "field": "nondeterminism", "tag": "depends_on_earlier_calls", "conversion": "extract_default",
                                    "expected": fresh[(v, i)][:200], "observed": got[:200], "earlier_call": pl, "earlier_flags": str(pf)},
                                   {"worker": "call_order_extract_default", "earlier": pl, "earlier_flags": pf, "line": v, "flags": f})
                        return


def run(ctx):
    ctx.require("call_order_pairs_compared", 100)
    call_order_extract_default(ctx)
    ctx.require("hash_seed_processes", 5)
    ctx.require("digests_compared_across_hash_seeds", 100)
    ctx.require("permutation_digests_compared", 100)
    ctx.require("alone_baselines", 10)
    gen_seed = ctx.seed
    n = 40 if ctx.quick() else 400
    hash_seeds = (list(range(0, 8)) + ["random"]) if ctx.quick() else (list(range(0, 60)) + ["random"] * 5)
    n_perm = 6 if ctx.quick() else 40
    n_alone = 24 if ctx.quick() else 160
    pool = ThreadPoolExecutor(max_workers=16)
    try:
        futs = {hs_i: pool.submit(worker, [gen_seed, n, "all"], hs) for hs_i, hs in enumerate(hash_seeds)}
        runs = {}
        for hs_i, f in futs.items():
            try:
                runs[hs_i] = f.result()
                ctx.event("hash_seed_processes")
            except Exception as e:
                ctx.inconclusive.append(str(e)[:300])
        if 0 not in runs:
            return
        ref = {idx: (name, dig) for idx, name, dig in runs[0]}
        total = len(ref)
        ctx.note("conversions", total)
        for hs_i, lines in runs.items():
            for idx, name, dig in lines:
                ctx.case(("hashseed", hs_i, idx), nontrivial=True,
                         sample={"conversion": name, "hash_seed": str(hash_seeds[hs_i]), "digest": dig[:16]}, sample_key=name.split(":")[0])
                ctx.event("digests_compared_across_hash_seeds")
                if ref[idx][1] != dig:
                    ctx.report({"op": "hash_seed_sweep", "field": "nondeterminism", "tag": "differs_across_hash_seeds",
                                "conversion_kind": name.rsplit(":", 1)[0], "expected": ref[idx][1][:16], "observed": dig[:16]},
                               {"gen_seed": gen_seed, "n": n, "idx": idx, "name": name, "hash_seeds": [str(hash_seeds[0]), str(hash_seeds[hs_i])]})
        # alone baselines (one process per conversion)
        sample = ctx.rng.sample(range(total), min(n_alone, total))
        afuts = {idx: pool.submit(worker, [gen_seed, n, "single", idx], 0) for idx in sample}
        alone = {}
        for idx, f in afuts.items():
            try:
                alone[idx] = f.result()[0][2]
                ctx.event("alone_baselines")
            except Exception as e:
                ctx.inconclusive.append(str(e)[:300])
        for idx, dig in alone.items():
            ctx.case(("alone", idx), nontrivial=True)
            ctx.event("in_order_vs_alone_compared")
            if ref[idx][1] != dig:
                ctx.report({"op": "history", "field": "nondeterminism", "tag": "in_order_run_differs_from_alone",
                            "conversion_kind": ref[idx][0].rsplit(":", 1)[0], "expected": dig[:16], "observed": ref[idx][1][:16]},
                           {"gen_seed": gen_seed, "n": n, "idx": idx, "name": ref[idx][0]})
        # shuffled orders with repetition
        pfuts = {ps: pool.submit(worker, [gen_seed, n, "perm", ps, 2], ps % 3) for ps in range(n_perm)}
        for ps, f in pfuts.items():
            try:
                lines = f.result()
            except Exception as e:
                ctx.inconclusive.append(str(e)[:300])
                continue
            ctx.event("permutation_processes")
            for idx, name, dig in lines:
                ctx.case(("perm", ps, idx), nontrivial=True)
                ctx.event("permutation_digests_compared")
                want = alone.get(idx, ref[idx][1])
                if dig != want:
                    ctx.report({"op": "history", "field": "nondeterminism", "tag": "order_or_repetition_dependent",
                                "conversion_kind": name.rsplit(":", 1)[0], "expected": want[:16], "observed": dig[:16]},
                               {"gen_seed": gen_seed, "n": n, "idx": idx, "name": name, "perm_seed": ps})
    finally:
        pool.shutdown(wait=False)


def replay(payload):
    from ..runner import Ctx

    rp = payload["replay"]
    ctx = Ctx(PROPERTY, "quick", 0)
    ctx.case(("replay",))
    a = worker([rp["gen_seed"], rp["n"], "single", rp["idx"]], 0)[0][2]
    for hs in rp.get("hash_seeds", ["1", "2", "3"]):
        b = worker([rp["gen_seed"], rp["n"], "single", rp["idx"]], hs)[0][2]
        if a != b:
            ctx.report({"op": "hash_seed_sweep", "field": "nondeterminism", "tag": "differs_across_hash_seeds", "expected": a[:16], "observed": b[:16]}, rp)
    return ctx
