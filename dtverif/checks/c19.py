"""C19 -- gen writes one well-formed, correctly named definition per mapping entry.

E: a generated input package (1..4 classes with __init__ and/or functions, annotated or not,
   0..3 import lines) on sys.path; gen(...) via API and `gen` via CLI; the output file.
O: output parses; exactly one generated definition per mapping entry, named by the
   template, in mapping order; __all__ lists exactly those names; prepend text and hoisted
   imports appear once and before the definitions; each definition's parameter names agree
   with inspect.signature of its source object; a pre-existing output file => refusal,
   file untouched.
"""
import ast
import hashlib
import importlib
import inspect
import os
import shutil
import subprocess
import sys
import tempfile

from .. import env
from ..gen_py import gen_function

PROPERTY = "C19"
LEVEL = "exploration"
SHARDS = {"quick": 4, "thorough": 16}
TIMEOUT = {"quick": 900, "thorough": 3400}
OP = "gen"
RULE = (
    "generated input modules (1..4 mapping entries: classes with __init__ and plain functions, annotated or not, "
    "documented or not, 0..3 import lines) x output type{class,function,argparse} x name templates x prepend on/off x "
    "imports-from-file on/off, through gen.gen (API) and `python -m doctrans gen` (CLI subprocess); one evaluation = "
    "one gen run + inspection of the output file; plus refusal runs on a pre-existing output; non-trivial = at least one "
    "mapping entry has parameters; distinct = distinct (entry kinds, annotations, imports, type, options)"
)
ASSUMPTIONS = [
    "the interface check of each generated definition is by parameter NAMES against inspect.signature of the source object "
    "(value-level fidelity of the in-memory parsers is C07's subject)",
    "held = held on the executions observed",
]
ANCHORS = [
    ("doctrans/gen.py", "gen"),
    ("doctrans/parse.py", "_inspect"),
    ("doctrans/pure_utils.py", "get_module"),
]

IMPORT_LINES = ["import os", "import json", "from collections import OrderedDict", "from typing import Optional, List"]


def build_input(rng, idx):
    """Returns (module source, mapping names in order, features, per-entry expected param names)."""
    n = rng.randint(1, 4)
    n_imp = rng.randint(0, 3)
    imports = rng.sample(IMPORT_LINES, n_imp)
    annotated = rng.random() < 0.4
    future = rng.random() < 0.3
    lines = (["from __future__ import annotations"] if future else []) + list(imports)
    if annotated and "from typing import Optional, List" not in imports:
        lines.append("from typing import Optional, List, Literal, Tuple")
    elif annotated:
        lines.append("from typing import Literal, Tuple")
    lines += ["", "class _S(type):", "    def __call__(c, *a, **k): return None", "    def __getattr__(c, n):",
              "        if n.startswith('__'): raise AttributeError(n)", "        return _S(n, (), {})",
              "np = _S('np', (), {})", "torch = _S('torch', (), {})", "def make_thing(*a): return None", ""]
    late_import = rng.random() < 0.5
    if late_import:
        # imports are not always one block at the head of a module: one more after other statements
        lines += ["import json as zq_late_json", "from collections import OrderedDict as ZqLateOrderedDict", ""]
    names, expect, kinds = [], {}, []
    for j in range(n):
        is_class = rng.random() < 0.6
        nm = ("Klass{}" if is_class else "func{}").format(j)
        doc_mode = rng.choice(["all", "all", "some", "none"])
        if is_class:
            f = gen_function(rng, name="__init__", kind="self", style="rest", doc_mode=doc_mode, max_pos=3, max_kw=2)
        else:
            f = gen_function(rng, name=nm, kind="static", style="rest", doc_mode=doc_mode, max_pos=3, max_kw=2)
        src = f.src
        if not annotated:
            # strip annotations by regenerating the signature without them
            import re

            for p in f.params:
                if p["annotation"]:
                    src = src.replace("{}: {}".format(p["name"], p["annotation"]), p["name"], 1).replace("{} = ".format(p["name"]), "{}=".format(p["name"]), 1)
            if f.ret_ann:
                src = src.replace(" -> {}:".format(f.ret_ann), ":", 1)
        if is_class:
            lines += ["class {}(object):".format(nm), '    """', "    The zqsum class {}".format(nm), '    """', ""]
            if rng.random() < 0.4:
                # another method precedes __init__ in the class body
                lines += ["    def zq_describe(self):", "        return 'zq'", ""]
            lines += ["    " + l for l in src.rstrip("\n").split("\n")] + [""]
        else:
            lines += src.rstrip("\n").split("\n") + [""]
        names.append(nm)
        kinds.append("class" if is_class else "function")
        expect[nm] = [p["name"] for p in f.params]
    # registry style: some keys are aliases that differ from the object's own __name__
    alias = rng.random() < 0.5
    keys = [("alias_" + n.lower()) if (alias and rng.random() < 0.6) else n for n in names]
    # the documented input forms: dictionary / mapping / collection of 2-tuples
    form = rng.choice(["dict", "dict", "list_of_pairs", "tuple_of_pairs", "zip_of_pairs", "generator_of_pairs"])
    if form == "dict":
        lines.append("input_map = {" + ", ".join("'{0}': {1}".format(k, n) for k, n in zip(keys, names)) + "}")
    else:
        body = ", ".join("('{0}', {1})".format(k, n) for k, n in zip(keys, names)) + ("," if len(keys) == 1 else "")
        if form == "zip_of_pairs":  # a one-shot iterable of pairs
            lines.append("input_map = zip(({0},), ({1},))".format(", ".join(repr(k) for k in keys), ", ".join(names)))
        elif form == "generator_of_pairs":
            lines.append("input_map = (zq_pair for zq_pair in [" + body + "])")
        else:
            lines.append("input_map = " + ("[" + body + "]" if form == "list_of_pairs" else "(" + body + ")"))
    expect = {k: expect[n] for k, n in zip(keys, names)}
    obj_kind = {k: ("class" if n.startswith("Klass") else "function") for k, n in zip(keys, names)}
    names = keys
    lines.append("")
    feats = {"n_entries": n, "n_import_lines": n_imp, "import_after_other_statements": late_import, "annotated": annotated, "entry_kinds": sorted(set(kinds)),
             "has_function_entry": "function" in kinds, "has_class_entry": "class" in kinds,
             "any_params": any(expect.values()), "aliased_keys": alias, "obj_kind": obj_kind, "mapping_form": form,
             "future_import": future,
             "keys_in_sorted_order": list(keys) == sorted(keys)}
    return "\n".join(lines), names, feats, expect


def sha(path):
    with open(path, "rb") as f:
        return hashlib.sha256(f.read()).hexdigest()


def one(ctx, i, tmpdir):
    from doctrans.gen import gen

    rng = ctx.case_rng(i)
    modname = "zqgenin_{}_{}_{}".format(os.getpid(), ctx.shard[0], i)
    src, names, feats, expect = build_input(rng, i)
    in_fn = os.path.join(tmpdir, modname + ".py")
    nested = (i // 5) % 3 == 1
    if nested:
        # the mapping lives in a module of a package (pkg.sub.input_map) that nothing has imported yet
        pkg = "zqgenpkg_{}_{}_{}".format(os.getpid(), ctx.shard[0], i)
        os.makedirs(os.path.join(tmpdir, pkg), exist_ok=True)
        open(os.path.join(tmpdir, pkg, "__init__.py"), "w").close()
        in_fn = os.path.join(tmpdir, pkg, "zqsub.py")
        modname = pkg + ".zqsub"
    with open(in_fn, "w") as f:
        f.write(src)
    type_ = ("class", "argparse", "function")[i % 3]
    tpl = ("{name}Config", "Gen_{name}", "{name}", "_{name}Impl")[(i // 3) % 4]
    prepend = "PREPENDED_ZQ = {}\n".format(i) if (i // 9) % 2 else None
    imports_from_file = in_fn if (i // 18) % 2 else None
    if imports_from_file and prepend and i % 4 == 0:
        prepend = "import math\n" + prepend
    out_fn = os.path.join(tmpdir, "out_{}.py".format(i))
    via = "cli" if i % 8 == 5 else "api"
    base = dict(op=OP, type=type_, name_tpl=tpl, prepend=prepend is not None, imports_from_file=imports_from_file is not None, via=via, mapping_in_a_package=nested,
                **{k: v for k, v in feats.items() if k != "obj_kind"})
    replay = {"case": i, "seed": ctx.seed, "tier": ctx.tier, "input": src, "type": type_, "name_tpl": tpl, "prepend": prepend, "imports_from_file": bool(imports_from_file)}
    ctx.case((type_, tpl, prepend is not None, imports_from_file is not None, feats["n_entries"], feats["n_import_lines"], feats["annotated"],
              tuple(feats["entry_kinds"]), i), nontrivial=feats["any_params"],
             sample={"type": type_, "name_tpl": tpl, "prepend": prepend, "imports_from_file": bool(imports_from_file), "input": src[-700:]},
             sample_key=type_)
    ctx.feature("type=" + type_)
    ctx.feature("imports={}".format(feats["n_import_lines"]))
    ctx.feature("annotated" if feats["annotated"] else "unannotated")
    exc = None
    sys.path.insert(0, tmpdir)
    try:
        if via == "api":
            import contextlib
            import io

            try:
                with contextlib.redirect_stdout(io.StringIO()):
                    gen(name_tpl=tpl, input_mapping=modname + ".input_map", type_=type_, output_filename=out_fn, prepend=prepend,
                        imports_from_file=imports_from_file)
            except BaseException as e:
                exc = e
        else:
            argv = ["gen", "--name-tpl", tpl, "--input-mapping", modname + ".input_map", "--type", type_, "--output-filename", out_fn]
            if prepend:
                argv += ["--prepend", prepend.replace("\n", "\\n")]
            if imports_from_file:
                argv += ["--imports-from-file", imports_from_file]
            pr = subprocess.run([sys.executable, "-m", "dtverif.cli_launcher"] + argv, cwd=env.ROOT,
                                env=env.child_env({"PYTHONPATH": os.pathsep.join([env.ROOT, env.REPO, tmpdir])}), capture_output=True, text=True, timeout=120)
            ctx.event("cli_invocations")
            if pr.returncode != 0:
                class CliFailure(Exception):
                    pass

                exc = CliFailure((pr.stderr.strip().split("\n") or [""])[-1][:200])
    finally:
        sys.path.remove(tmpdir)
        sys.modules.pop(modname, None)
        if nested:
            sys.modules.pop(modname.split(".")[0], None)
    ctx.event("gen_runs")
    if exc is not None:
        ctx.report_exception(exc, base, replay, stage="gen") if via == "api" else ctx.report(
            dict(base, field="raises", stage="gen", exc=str(exc).split(":")[0][:40], exc_in="cli", msg=str(exc)[:200]), replay)
        return
    if not os.path.isfile(out_fn):
        ctx.report(dict(base, field="output", tag="not_written", expected="file", observed="absent"), replay)
        return
    out_src = open(out_fn).read()
    replay["output"] = out_src
    try:
        tree = ast.parse(out_src)
    except SyntaxError as e:
        ctx.report(dict(base, field="output", tag="does_not_parse", msg=str(e)[:120], expected="valid python", observed=""), replay)
        return
    ctx.event("outputs_parsed")
    try:
        compile(out_src, out_fn, "exec")  # e.g. `from __future__` imports must come first
    except SyntaxError as e:
        ctx.report(dict(base, field="output", tag="does_not_compile", msg=str(e)[:120], expected="compilable module", observed=""), replay)
    ctx.event("outputs_compiled")
    want = [tpl.format(name=n) for n in names]
    defs = [s for s in tree.body if isinstance(s, (ast.ClassDef, ast.FunctionDef)) and s.name in want]
    got = [d.name for d in defs]
    if got != want:
        ctx.report(dict(base, field="definitions", tag="names_or_order_or_count", expected=str(want), observed=str(got)), replay)
    kind_ok = all(isinstance(d, ast.ClassDef) == (type_ == "class") for d in defs)
    if not kind_ok:
        ctx.report(dict(base, field="definitions", tag="wrong_kind", expected=type_, observed=str([type(d).__name__ for d in defs])), replay)
    # __all__
    alls = [s for s in tree.body if isinstance(s, ast.Assign) and any(isinstance(t, ast.Name) and t.id == "__all__" for t in s.targets)]
    if len(alls) != 1:
        ctx.report(dict(base, field="__all__", tag="count", expected="1", observed=str(len(alls))), replay)
    else:
        try:
            listed = ast.literal_eval(alls[0].value)
        except Exception:
            listed = None
        if listed != want:
            ctx.report(dict(base, field="__all__", tag="content", expected=str(want), observed=str(listed)), replay)
        if tree.body[-1] is not alls[0]:
            ctx.report(dict(base, field="__all__", tag="not_last", expected="last statement", observed=type(tree.body[-1]).__name__), replay)
    # prepend + imports once, before the definitions
    first_def = next((k for k, s in enumerate(tree.body) if s in defs), len(tree.body))
    if prepend:
        occ = [k for k, s in enumerate(tree.body) if isinstance(s, ast.Assign) and any(isinstance(t, ast.Name) and t.id == "PREPENDED_ZQ" for t in s.targets)]
        if len(occ) != 1 or occ[0] > first_def:
            ctx.report(dict(base, field="prepend", tag="missing_duplicated_or_late", expected="once before definitions", observed=str(occ)), replay)
    if imports_from_file:
        in_imports = [ast.dump(s) for s in ast.parse(src).body if isinstance(s, (ast.Import, ast.ImportFrom))]
        out_imports = [(k, ast.dump(s)) for k, s in enumerate(tree.body) if isinstance(s, (ast.Import, ast.ImportFrom))]
        for d in in_imports:
            occ = [k for k, x in out_imports if x == d]
            if len(occ) != 1 or occ[0] > first_def:
                ctx.report(dict(base, field="imports", tag="missing_duplicated_or_late", expected="once before definitions", observed=str(occ)), replay)
                break
    # interface by parameter names
    for d, n in zip(defs, names):
        if d.name != tpl.format(name=n):
            continue
        if isinstance(d, ast.ClassDef):
            have = [s.target.id for s in d.body if isinstance(s, ast.AnnAssign)] + [t.id for s in d.body if isinstance(s, ast.Assign) for t in s.targets if isinstance(t, ast.Name)]
        elif type_ == "argparse":
            have = [s.value.args[0].value[2:] for s in d.body if isinstance(s, ast.Expr) and isinstance(s.value, ast.Call)
                    and getattr(s.value.func, "attr", None) == "add_argument"]
        else:
            have = [a.arg for a in d.args.args + d.args.kwonlyargs] + ([d.args.kwarg.arg] if d.args.kwarg else [])
        have = [h for h in have if h not in ("return_type", "self", "cls")]
        ctx.event("interfaces_compared")
        ek = feats["obj_kind"][n]
        if sorted(have) != sorted(expect[n]):
            missing = sorted(set(expect[n]) - set(have))
            extra = sorted(set(have) - set(expect[n]))
            ctx.report(dict(base, field="interface", tag="param_names_differ", entry_kind=ek,
                            only_kwargs_missing=bool(missing) and not extra and all(m.endswith("kwargs") for m in missing),
                            expected=str(expect[n]), observed=str(have)), replay)
        elif have != expect[n]:
            ctx.report(dict(base, field="interface", tag="param_order_differs", entry_kind=ek, expected=str(expect[n]), observed=str(have)), replay)
    # refusal on an existing output (CLI guard)
    if i % 5 == 0:
        before = sha(out_fn)
        argv = ["gen", "--name-tpl", tpl, "--input-mapping", modname + ".input_map", "--type", type_, "--output-filename", out_fn]
        pr = subprocess.run([sys.executable, "-m", "dtverif.cli_launcher"] + argv, cwd=env.ROOT,
                            env=env.child_env({"PYTHONPATH": os.pathsep.join([env.ROOT, env.REPO, tmpdir])}), capture_output=True, text=True, timeout=120)
        ctx.event("refusal_runs")
        if pr.returncode == 0:
            ctx.report(dict(base, field="refusal", tag="accepted_existing_output", expected="non-zero exit", observed="0"), replay)
        if sha(out_fn) != before:
            ctx.report(dict(base, field="refusal", tag="existing_output_modified", expected="untouched", observed="changed"), replay)
        # the same existing file named as ~/<file> (a tilde the shell left alone), HOME pointing at its directory:
        # however the name is read, the existing file keeps its bytes
        argv[-1] = "~/" + os.path.basename(out_fn)
        pr = subprocess.run([sys.executable, "-m", "dtverif.cli_launcher"] + argv, cwd=tmpdir,
                            env=env.child_env({"PYTHONPATH": os.pathsep.join([env.ROOT, env.REPO, tmpdir]), "HOME": os.path.realpath(os.path.dirname(out_fn))}),
                            capture_output=True, text=True, timeout=120)
        ctx.event("refusal_runs_with_tilde")
        if sha(out_fn) != before:
            ctx.report(dict(base, field="refusal", tag="existing_output_modified", named_with_tilde=True, expected="untouched", observed="changed"), replay)
        stray = os.path.join(tmpdir, "~")
        if os.path.isdir(stray):
            shutil.rmtree(stray, ignore_errors=True)


def run(ctx):
    ctx.require("gen_runs", 30)
    ctx.require("refusal_runs", 3)
    tmpdir = tempfile.mkdtemp(prefix="dtverif-c19-")
    try:
        n = ctx.n(120, 4000)
        for j in range(n):
            one(ctx, j * ctx.shard[1] + ctx.shard[0], tmpdir)
    finally:
        shutil.rmtree(tmpdir, ignore_errors=True)


def replay(payload):
    from ..runner import Ctx

    rp = payload["replay"]
    ctx = Ctx(PROPERTY, rp.get("tier", "quick"), rp.get("seed", 0))
    tmpdir = tempfile.mkdtemp(prefix="dtverif-c19-")
    try:
        one(ctx, rp["case"], tmpdir)
    finally:
        shutil.rmtree(tmpdir, ignore_errors=True)
    return ctx
