#!/venv/bin/python
"""Run the repository's test-suite (guard OFF, no instrumentation) and compare the set of
passing tests with /root/.vp/BASELINE.json's stable_pass.  Exit 0 iff every baseline test
still passes."""
import json, os, subprocess, sys, tempfile
import xml.etree.ElementTree as ET

repo = sys.argv[1] if len(sys.argv) > 1 else "/repo"
base = json.load(open("/root/.vp/BASELINE.json"))
want = set(base["stable_pass"])
fd, xml = tempfile.mkstemp(suffix=".xml"); os.close(fd)
env = dict(os.environ); env.pop("DOCTRANS_VERIF", None); env["PYTHONDONTWRITEBYTECODE"] = "1"
subprocess.run([ "/venv/bin/python", "-m", "pytest", "-q", "-p", "no:cacheprovider", "--timeout=900",
                 "--continue-on-collection-errors", "--junitxml=" + xml], cwd=repo, env=env,
               stdout=subprocess.DEVNULL, stderr=subprocess.DEVNULL)
passed = set()
for tc in ET.parse(xml).getroot().iter("testcase"):
    if not any(ch.tag in ("failure", "error", "skipped") for ch in tc):
        passed.add("{}::{}".format(tc.get("classname"), tc.get("name")))
os.unlink(xml)
missing = sorted(want - passed)
print("baseline={} passed_now={} baseline_missing={}".format(len(want), len(passed), len(missing)))
for m in missing: print("  NO LONGER PASSING:", m)
sys.exit(1 if missing else 0)
