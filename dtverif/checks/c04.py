"""C04 -- argparse-function round-trip fidelity.

E: emit.argparse_function(ir) -> FunctionDef -> to_code -> ast.parse -> parse.argparse_ast
O: compare(project_argparse(ir), ir') on the argparse-expressible sub-domain: description,
   option names/order, help, scalar type, Literal<->choices, List<->append,
   Optional<->not required, explicit defaults with type, return entry iff it has a default.
"""
from ..gen_ir import knobs
from ..roundtrip import replay_roundtrip, run_kind

PROPERTY = "C04"
LEVEL = "exploration"
SHARDS = {"quick": 4, "thorough": 16}
TIMEOUT = {"quick": 600, "thorough": 3000}
OP = "roundtrip_argparse"
RULE = (
    "seeded IR generator restricted to argparse-expressible types (scalars, Optional/List/Literal of scalars, "
    "Union fallback, kwargs dict) x default text on/off x word-wrap on/off x wrap_description on/off; one "
    "evaluation = emit.argparse_function -> to_code -> ast.parse -> parse.argparse_ast compared field-wise; "
    "non-trivial = at least one option or a return entry; distinct = distinct (shape signature, options)"
)
ASSUMPTIONS = [
    "held = held on the executions observed",
    "documented normalisations permitted by the table: required options without default acquire the zero value of "
    "their type; types argparse cannot express fall back to str; a return entry survives only when it has a default",
]
ANCHORS = [
    ("doctrans/emit.py", "argparse_function"),
    ("doctrans/ast_utils.py", "param2argparse_param"),
    ("doctrans/ast_utils.py", "_resolve_arg"),
    ("doctrans/ast_utils.py", "infer_type_and_default"),
    ("doctrans/parse.py", "argparse_ast"),
    ("doctrans/emitter_utils.py", "parse_out_param"),
    ("doctrans/emitter_utils.py", "_parse_return"),
]


def run(ctx):
    ctx.require("parse.argparse", 10)
    run_kind(ctx, OP, "argparse", ctx.n(4000, 120000), knobs(argparse_domain=True, hostile_strings=not ctx.quick(), p_doc_states_default=0.15, p_hyphen_tokens=0.3, p_return_literal_source=0.25, p_return_none_default=0.12, p_indented_summary_line=0.3))


def replay(payload):
    return replay_roundtrip(PROPERTY, OP, payload)
