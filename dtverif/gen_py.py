"""Seeded generators of *user-written* Python: function/method/class definitions with
docstrings in the three styles (documenting all / some / none of the parameters, in or out
of signature order), bodies, and whole modules.  Every identifier / statement that must be
tracked carries a unique marker (zq...).
"""
import random

PNAMES = [
    "dataset_name", "tfds_dir", "K", "as_numpy", "lr", "epochs", "alpha", "momentum", "nesterov",
    "log_dir", "mode", "size", "batch_size", "shuffle", "seed", "path", "verbose", "beta_1", "eps", "x", "y0",
    "c", "s", "e", "cl",
]

LIT_DEFAULTS = [
    ("5", "int_pos"), ("0", "int_zero"), ("-3", "int_neg"), ("2.5", "float_pos"), ("-0.5", "float_neg"),
    ("1e-07", "float_exp"), ("True", "bool_true"), ("False", "bool_false"), ("None", "none"),
    ("'mnist'", "str_plain"), ("'~/data dir'", "str_space"),
]
EXPR_DEFAULTS = [("[1, 2]", "code_list"), ("(3, 4)", "code_tuple"), ("make_thing(7)", "code_call"), ("np.empty(0)", "code_dotted_call")]
ANNOTATIONS = {
    "int_pos": ["int", "Optional[int]"], "int_zero": ["int"], "int_neg": ["int", "Optional[int]"],
    "float_pos": ["float"], "float_neg": ["float"], "float_exp": ["float", "Optional[float]"],
    "bool_true": ["bool"], "bool_false": ["bool", "Optional[bool]"], "none": ["Optional[str]", "Optional[int]", "np.ndarray"],
    "str_plain": ["str", "Optional[str]", "Literal['mnist', 'cifar']"], "str_space": ["str"],
    "code_list": ["List[int]"], "code_tuple": ["Tuple[int, int]"], "code_call": ["torch.nn.Module"],
    "code_dotted_call": ["np.ndarray"], "absent": ["int", "str", "float", "bool", "np.ndarray", "List[str]", "Optional[int]"],
}


class FuncSpec(dict):
    __getattr__ = dict.__getitem__


def gen_function(rng, name="f_target", kind=None, style=None, doc_mode=None, order=None, with_body=False, max_pos=4, max_kw=3,
                 force_partial_defaults=None, p_default_sentence=0.0, p_no_params=None, p_two_announcements=0.0, p_over_documented=0.0):
    """Returns FuncSpec(src=..., params=[...], ...).  params: list of dicts with
    name, kind(pos|kwonly|kwargs), default_src|None, default_class, annotation|None,
    documented(bool), doc(str|None), doc_typ(str|None)."""
    kind = kind or rng.choice(["static", "self", "cls"])
    style = style or rng.choice(["rest", "numpydoc", "google"])
    doc_mode = doc_mode or rng.choice(["all", "some", "some", "none"])
    order = order or rng.choice(["in", "in", "out"])
    n_pos = rng.randint(0, max_pos)
    n_kw = rng.randint(0, max_kw)
    if p_no_params is not None and rng.random() < p_no_params:
        n_pos = n_kw = 0
    elif n_pos + n_kw == 0 and rng.random() < 0.8:
        n_pos = 1
    names = rng.sample(PNAMES, n_pos + n_kw)
    params = []
    # positional: first k without default, rest with default (python rule)
    n_nodef = rng.randint(0, n_pos)
    if force_partial_defaults and n_pos >= 2:
        n_nodef = rng.randint(1, n_pos - 1)
    for i in range(n_pos):
        has_def = i >= n_nodef
        params.append(_mk_param(rng, names[i], "pos", has_def))
    for j in range(n_kw):
        params.append(_mk_param(rng, names[n_pos + j], "kwonly", rng.random() < 0.6))
    has_kwargs = rng.random() < 0.3
    if has_kwargs:
        params.append({"name": rng.choice(["kwargs", "extra_kwargs"]), "kind": "kwargs", "default_src": None,
                       "default_class": "absent", "annotation": None})
    # documentation
    docd = []
    for p in params:
        if doc_mode == "all":
            p["documented"] = True
        elif doc_mode == "none":
            p["documented"] = False
        else:
            p["documented"] = rng.random() < 0.5
    if doc_mode == "some" and params and all(p["documented"] for p in params):
        params[rng.randrange(len(params))]["documented"] = False
    if doc_mode == "some" and len(params) > 1 and not any(p["documented"] for p in params):
        params[rng.randrange(len(params))]["documented"] = True
    for p in params:
        p["doc_states_default"] = False
        if p["documented"]:
            p["doc"] = "the zq_{} setting used".format(p["name"])
            if p["default_src"] is not None and p["default_class"] not in ("none",) and rng.random() < p_default_sentence:
                # the docstring also states the (same) default, as users commonly write it
                shown = p["default_src"].replace("'", '"') if p["default_class"].startswith("str") else p["default_src"]
                if p["default_class"].startswith("code"):
                    shown = "```{}```".format(shown)
                p["doc"] += ". Defaults to {}".format(shown)
                p["doc_states_default"] = True
            elif p_two_announcements and rng.random() < p_two_announcements:
                # hand-written prose that announces two values with two different phrases
                p["doc"] += ". Default: 0.001. With the zq optimiser it defaults to 0.01"
                p["doc_states_default"] = True
            # type in the docstring: numpydoc/google need one; rest optionally
            if style in ("numpydoc", "google") or rng.random() < 0.4:
                p["doc_typ"] = p["annotation"] or ("Optional[dict]" if p["kind"] == "kwargs" else rng.choice(ANNOTATIONS[p["default_class"]]))
            else:
                p["doc_typ"] = None
            docd.append(p)
        else:
            p["doc"] = None
            p["doc_typ"] = None
    if order == "out" and len(docd) > 1:
        docd = docd[:]
        rng.shuffle(docd)
    over_documented = []
    if p_over_documented and rng.random() < p_over_documented:
        # the docstring also documents names that are not in the signature (options forwarded through **kwargs, attributes)
        over_documented = rng.sample(["sslmode", "application_name", "keepalives", "zq_retries", "zq_timeout", "zq_pool_size"], rng.randint(2, 4))
        docd = docd + [{"name": n, "doc": "the zq_{} option that is forwarded".format(n), "doc_typ": "int" if style in ("numpydoc", "google") else None}
                       for n in over_documented]
    ret_ann = rng.choice([None, None, "int", "np.ndarray", "Optional[str]"])
    has_ret_doc = doc_mode != "none" and rng.random() < 0.5
    ret_expr = rng.choice([None, "zq_result", "(alpha_zq, 2)", "5", "0", "False", "''", "0.0", "None", "", "-1", "'text'"]) if with_body or rng.random() < 0.4 else None
    summary = "Compute the zqsum thing for {}".format(name)
    # the prose of the return entry may itself announce a fallback value (which is NOT what the body returns)
    ret_doc = "the zq_return value"
    ret_doc_states_default = has_ret_doc and ret_ann in (None, "int") and rng.random() < 0.4
    if ret_doc_states_default:
        ret_doc += rng.choice([", defaults to 17", ". Default value is 19", ". Defaults to 23"])
    doc = None if (doc_mode == "none" and rng.random() < 0.5) else render_docstring(style, summary, docd, has_ret_doc, ret_ann, ret_doc)
    # signature
    first = [] if kind == "static" else [kind]
    pos_src = [_sig(p) for p in params if p["kind"] == "pos"]
    kw_src = [_sig(p) for p in params if p["kind"] == "kwonly"]
    sig = first + pos_src + (["*"] + kw_src if kw_src else []) + (["**" + p["name"] for p in params if p["kind"] == "kwargs"])
    lines = ["def {}({}){}:".format(name, ", ".join(sig), " -> {}".format(ret_ann) if ret_ann else "")]
    if doc is not None:
        lines.append('    """' + doc.replace("\n", "\n    ") + '"""')
    body = []
    if with_body:
        body = gen_body(rng, [p["name"] for p in params if p["kind"] != "kwargs"])
        if doc is not None and rng.random() < 0.15:
            # a bare string statement right after the docstring (a section marker): a statement, not a second docstring
            body = ["'zq_section_{}: first part'".format(rng.randint(100, 999))] + body
        lines += ["    " + l for l in body]
    if ret_expr is not None:
        if ret_expr in ("zq_result", "(alpha_zq, 2)"):
            lines.append("    zq_result = 1")
            lines.append("    alpha_zq = 2")
        lines.append(("    return " + ret_expr).rstrip())
    elif doc is None and not body:
        lines.append("    pass")
    return FuncSpec(src="\n".join(lines) + "\n", params=params, kind=kind, style=style, doc_mode=doc_mode, order=order,
                    name=name, has_doc=doc is not None, ret_ann=ret_ann, ret_expr=ret_expr, body=body,
                    documented_order=[p["name"] for p in docd], has_ret_doc=has_ret_doc,
                    ret_doc_states_default=ret_doc_states_default and doc is not None, over_documented=over_documented)


def _mk_param(rng, name, kind, has_def):
    if has_def:
        src, dc = rng.choice(LIT_DEFAULTS + EXPR_DEFAULTS[:2] if rng.random() < 0.85 else EXPR_DEFAULTS)
    else:
        src, dc = None, "absent"
    ann = rng.choice(ANNOTATIONS[dc]) if rng.random() < 0.6 else None
    return {"name": name, "kind": kind, "default_src": src, "default_class": dc, "annotation": ann}


def _sig(p):
    s = p["name"]
    if p["annotation"]:
        s += ": " + p["annotation"]
    if p["default_src"] is not None:
        s += (" = " if p["annotation"] else "=") + p["default_src"]
    return s


def render_docstring(style, summary, docd, has_ret_doc, ret_typ, ret_doc="the zq_return value"):
    """User-style docstring text following the layout of the repository's own mocks."""
    if style == "rest":
        out = ["", summary, ""]
        for p in docd:
            out.append(":param {}: {}".format(p["name"], p["doc"]))
            if p["doc_typ"]:
                out.append(":type {}: ```{}```".format(p["name"], p["doc_typ"]))
            out.append("")
        if has_ret_doc:
            out.append(":returns: " + ret_doc)
            if ret_typ:
                out.append(":rtype: ```{}```".format(ret_typ))
        return "\n".join(out) + "\n"
    if style == "google":
        out = ["", summary, ""]
        if docd:
            out.append("Args:")
            for p in docd:
                out.append("  {} ({}): {}".format(p["name"], p["doc_typ"], p["doc"]))
            out.append("")
        if has_ret_doc and ret_typ:
            out += ["Returns:", "  {}:".format(ret_typ), "   " + ret_doc]
        return "\n".join(out) + "\n"
    out = ["", summary, ""]
    if docd:
        out += ["Parameters", "----------"]
        for p in docd:
            out.append("{} : {}".format(p["name"], p["doc_typ"]))
            out.append("    " + p["doc"])
        out.append("")
    if has_ret_doc and ret_typ:
        out += ["Returns", "-------", ret_typ, "    " + ret_doc, ""]
    return "\n".join(out) + "\n"


# ------------------------------------------------------------------------------ bodies
def gen_body(rng, pnames):
    """Statements (source lines, 0-indent) using parameter names; each carries a marker."""
    a = pnames[0] if pnames else "None"
    b = pnames[-1] if pnames else "None"
    u = rng.randint(100, 999)
    pool = [
        ["zq_acc{0} = [{1}, {2}]".format(u, a, b)],
        ["zq_call{0} = dict({1}={1}, other={2})".format(u, a, b)] if pnames else ["zq_call{} = dict()".format(u)],
        ["for zq_i{0} in range(3):".format(u), "    print(zq_i{0}, {1})".format(u, a)],
        ["if {0}:".format(a), "    return None", "else:", "    zq_else{0} = {1}".format(u, b)],
        ["try:", "    zq_try{0} = {1}".format(u, a), "finally:", "    zq_fin{0} = 1".format(u)],
        ["def zq_inner{0}({1}):".format(u, a if pnames else "q"), "    return {0}".format(a if pnames else "q")],
        ["zq_lam{0} = lambda {1}: {1}".format(u, a if pnames else "q")],
        ["zq_comp{0} = [{1} for zq_e in range(2)]".format(u, a)],
        # annotated assignments directly in the body (with and without a value)
        ["zq_total{0}: int = {1}".format(u, a if pnames else 1), "zq_decl{0}: str".format(u)],
        # nested scopes that CLOSE OVER a parameter (no shadowing): the reference inside must be rewritten too
        ["def zq_close{0}(zq_v):".format(u), "    return zq_v * {0}".format(b)] if pnames else ["zq_noclose{} = 0".format(u)],
        ["zq_key{0} = lambda zq_item: zq_item - {1}".format(u, a)] if pnames else ["zq_nokey{} = 0".format(u)],
        ["zq_attr{0} = {1}.real if hasattr({1}, 'real') else {2}".format(u, a, b)],
        ["print('zq_marker{0}', {1})".format(u, b)],
        ["zq_kept{0} = {1}".format(u, a), "del {0}".format(a)] if pnames else ["zq_nodel{} = 0".format(u)],
        # a local that carries a name other interfaces use for a PARAMETER (never one of this function's own)
        (lambda o: ["{0} = {1}".format(o, u), "print('zq_other{0}', {1})".format(u, o)])(rng.choice([n for n in PNAMES if n not in pnames])),
        # a local spelt like the entry the class emitter uses for the return value (never a parameter)
        ["return_type = {0}".format(u), "print('zq_rt{0}', [return_type for zq_r in range(1)])".format(u)],
    ]
    k = rng.randint(1, 5)
    chosen = rng.sample(pool, k)
    return [l for block in chosen for l in block]


# ------------------------------------------------------------------------------ classes
def gen_class_with_init(rng, name="C_target", style=None, inner_name="__init__", inner_kind="self"):
    """class whose docstring documents a SUBSET of the __init__ parameters as :cvar entries
    (so the class/__init__ merge has to append the remaining ones) and an __init__ to merge."""
    f = gen_function(rng, name=inner_name, kind=inner_kind, style="rest", doc_mode=rng.choice(["all", "some", "none"]))
    style = style or "rest"
    cand = [p["name"] for p in f.params if p["kind"] != "kwargs"]
    k = rng.randint(0, max(0, len(cand) - 1)) if cand else 0
    cvars = rng.sample(cand, k) if k else []
    lines = ["class {}(object):".format(name), '    """', "    Class zqsum {}".format(name), ""]
    for c in cvars:
        lines.append("    :cvar {}: the zqc_{} class level description".format(c, c))
    lines += ['    """', ""]
    # attributes that are only DECLARED in the class body (no concrete value): the __init__ default must fill the gap
    declared = []
    for pr in f.params:
        if pr["kind"] != "kwargs" and rng.random() < 0.3:
            if pr["annotation"]:
                lines.append("    {}: {}{}".format(pr["name"], pr["annotation"], rng.choice(["", " = None"])))
            else:
                lines.append("    {} = None".format(pr["name"]))
            declared.append(pr["name"])
    if declared:
        lines.append("")
    # a helper class nested in the class body with an __init__ of its own (before or after the outer one)
    nested = ["    class ZqItem(object):", "        def __init__(self, zq_x, zq_weight=5.5):", "            self.zq_x = zq_x", ""] if rng.random() < 0.3 else []
    nested_first = bool(nested) and rng.random() < 0.5
    if nested_first:
        lines += nested
    if inner_kind == "static":
        lines.append("    @staticmethod")
    elif inner_kind == "cls":
        lines.append("    @classmethod")
    for l in f.src.rstrip("\n").split("\n"):
        lines.append("    " + l)
    if nested and not nested_first:
        lines += [""] + nested
    return FuncSpec(src="\n".join(lines) + "\n", init=f, name=name, cvars=cvars, declared=declared, nested_class_with_init=bool(nested))


# ------------------------------------------------------------------------------ modules
MOD_NAMES = ["alpha", "beta", "gamma", "delta", "omega", "kappa", "sigma", "theta"]
CLS_NAMES = ["A", "B", "Config", "Model", "Trainer", "Inner", "Deep"]
FN_NAMES = ["f", "g", "helper", "train", "build", "run_it"]
ARG_NAMES = ["a", "b", "q", "lr", "epochs", "name", "size"]


def _fn_src(rng, name, first=None, indent=0, arg_pool=None, marker=None):
    pool = arg_pool or ARG_NAMES
    n = rng.randint(0, 3)
    args = rng.sample(pool, n)
    parts = [first] if first else []
    ndef = rng.randint(0, n)
    for i, a in enumerate(args):
        s = a
        if rng.random() < 0.5:
            s += ": " + rng.choice(["int", "str", "float", "Optional[int]"])
        if i >= ndef:
            s += " = " + rng.choice(["1", "'x'", "None", "2.5"]) if ":" in s else "=" + rng.choice(["1", "'x'", "None", "2.5"])
        parts.append(s)
    kwonly = []
    if rng.random() < 0.3:
        k = rng.choice([p for p in pool if p not in args] or ["kw"])
        kwonly.append(k + "=" + rng.choice(["0", "None"]))
        parts += ["*"] + kwonly
    pad = "    " * indent
    mk = marker or "zq_body_{}".format(rng.randint(1000, 9999))
    lines = [pad + "def {}({}):".format(name, ", ".join(parts)),
             pad + "    {} = {}".format(mk, rng.randint(0, 99))]
    if rng.random() < 0.35:
        # local variables named like parameters (of this or of a same-named function elsewhere): never addressable
        for local in rng.sample(pool, rng.randint(1, 2)):
            lines.append(pad + ("    {}: int = {}" if rng.random() < 0.6 else "    {} = {}").format(local, rng.randint(100, 999)))
    if rng.random() < 0.2:
        lines.append(pad + "    zq_label = {!r}".format(rng.choice(pool)))
    lines.append(pad + "    return {}".format(mk))
    return lines, args, [k.split("=")[0] for k in kwonly]


def gen_module(rng, max_depth=3, want=None):
    """Generate a module; returns dict(src, locations=[{path, kind, ...features}]).
    Location kinds: assign, annassign, function, arg, kwarg, class, attr, method, method_arg."""
    lines = []
    locs = []
    if rng.random() < 0.5:
        lines += ['"""Module zqdoc docstring', "", "second line", '"""', ""]
    lines += rng.sample(["import os", "import sys", "from typing import Optional, List", "import json"], rng.randint(0, 3))
    lines.append("")
    used = set()

    def uniq(pool):
        cands = [n for n in pool if n not in used]
        n = rng.choice(cands) if cands else "{}_{}".format(rng.choice(pool), rng.randint(10, 99))
        return n

    state = {"funcs_seen_module": 0}

    def emit_assign(prefix, indent, scope_names, in_class, name=None):
        nm = name or uniq(MOD_NAMES)
        scope_names.add(nm)
        pad = "    " * indent
        if rng.random() < 0.6:
            lines.append(pad + "{}: {} = {}".format(nm, rng.choice(["int", "str", "Optional[int]", "'ZqNode'"]), rng.choice(["1", "'v'", "None"])))
            kind = "annassign"
        else:
            lines.append(pad + "{} = {}".format(nm, rng.choice(["1", "'v'", "[1, 2]"])))
            kind = "assign"
        locs.append({"path": prefix + [nm], "kind": "attr_" + kind if in_class else kind, "lineno": len(lines)})

    def emit_function(prefix, indent, in_class, arg_pool=None):
        nm = rng.choice(FN_NAMES) if rng.random() < 0.5 else uniq(FN_NAMES)
        first = None
        if in_class and rng.random() < 0.8:
            first = rng.choice(["self", "self", "cls"])
        start = len(lines) + 1
        fl, args, kwonly = _fn_src(rng, nm, first, indent, arg_pool)
        lines.extend(fl)
        locs.append({"path": prefix + [nm], "kind": "method" if in_class else "function", "lineno": start})
        for a in args:
            locs.append({"path": prefix + [nm, a], "kind": "method_arg" if in_class else "arg", "lineno": start})
        for a in kwonly:
            locs.append({"path": prefix + [nm, a], "kind": "method_kwarg" if in_class else "kwarg", "lineno": start})

    def emit_class(prefix, indent, depth):
        nm = uniq(CLS_NAMES)
        if depth > 1 and used and rng.random() < 0.35:
            # a nested class may re-use the simple name of a class elsewhere in the module
            nm = rng.choice(sorted(used))
        used.add(nm)
        pad = "    " * indent
        start = len(lines) + 1
        lines.append(pad + "class {}(object):".format(nm))
        if rng.random() < 0.5:
            lines.append(pad + '    """Class zqdoc {}"""'.format(nm))
        locs.append({"path": prefix + [nm], "kind": "class", "lineno": start})
        members = rng.randint(1, 4)
        names = set()
        for _ in range(members):
            r = rng.random()
            if r < 0.4:
                emit_assign(prefix + [nm], indent + 1, names, True)
            elif r < 0.85 or depth >= max_depth:
                emit_function(prefix + [nm], indent + 1, True)
            else:
                emit_class(prefix + [nm], indent + 1, depth + 1)
        mine = [l for l in locs if l["path"][:-1] == prefix + [nm] and l["kind"] == "attr_annassign"]
        if mine and rng.random() < 0.25:
            # the same attribute declared again inside a conditional block (not a member of the class body list)
            lines.append(pad + "    if len('zq') > 5:")
            again = rng.choice(mine)
            again["redeclared_in_block"] = True
            lines.append(pad + "        {}: int = {}".format(again["path"][-1], rng.randint(100, 999)))
        lines.append("")

    n_top = rng.randint(2, 6)
    top_names = set()
    for _ in range(n_top):
        r = rng.random()
        if r < 0.3:
            if rng.random() < 0.3:
                # optional-dependency idiom: the name that is assigned next is first tried as an import
                peek = uniq(MOD_NAMES)
                lines += ["try:", "    import {}".format(peek), "except ImportError:", "    pass"]
                emit_assign([], 0, top_names, False, name=peek)
                continue
            emit_assign([], 0, top_names, False)
        elif r < 0.6:
            emit_function([], 0, False)
            lines.append("")
        else:
            emit_class([], 0, 1)
    mine = [l for l in locs if len(l["path"]) == 1 and l["kind"] == "annassign"]
    if mine and rng.random() < 0.3:
        # a module-level setting assigned again inside a conditional block
        again = rng.choice(mine)
        again["redeclared_in_block"] = True
        lines += ["if len('zq') > 5:", "    {}: int = {}".format(again["path"][-1], rng.randint(100, 999)), ""]
    if rng.random() < 0.3:
        lines += ["if __name__ == '__main__':", "    print('zq_main')"]
    src = "\n".join(lines)
    if rng.random() < 0.8:
        src += "\n"
    # de-duplicate paths: a path that occurs twice is ambiguous by construction -> keep first, flag
    seen = {}
    for l in locs:
        key = ".".join(l["path"])
        l["dup"] = key in seen
        seen.setdefault(key, l)
    return {"src": src, "locations": locs}
