"""C03 -- function / method round-trip fidelity.

E: emit.function(ir, name, kind, inline_types, emit_as_kwonlyargs, indent_level, ...) ->
   FunctionDef -> to_code -> ast.parse -> parse.function -> ir'
O: as C02 plus: ir'['type'] equals the emitted kind (static/self/cls); the **kwargs
   parameter stays last; return type / prose / returned expression survive; no exception,
   including the only-a-return shape.  Permitted: undefaulted -> None.
"""
from ..gen_ir import knobs
from ..roundtrip import replay_roundtrip, run_kind

PROPERTY = "C03"
LEVEL = "exploration"
SHARDS = {"quick": 4, "thorough": 16}
TIMEOUT = {"quick": 600, "thorough": 3000}
OP = "roundtrip_function"
RULE = (
    "seeded IR generator x function kind{static,self,cls} x inline_types x keyword-only x indent_level{0,1,2} x "
    "separating tab x default text x word-wrap (option space enumerated round-robin: 384 combinations); one "
    "evaluation = emit.function -> to_code -> ast.parse -> parse.function compared field-wise with the input IR, "
    "plus function type and kwargs position; non-trivial = has a parameter or a return entry; distinct = distinct "
    "(shape signature, option combination)"
)
ASSUMPTIONS = [
    "held = held on the executions observed",
    "documented normalisation permitted: a parameter without default is emitted with `=None`",
    "docstring_format other than rest raises NotImplementedError by design and is asserted to keep doing so",
]
ANCHORS = [
    ("doctrans/emit.py", "function"),
    ("doctrans/emitter_utils.py", "to_docstring"),
    ("doctrans/parse.py", "function"),
    ("doctrans/ast_utils.py", "func_arg2param"),
    ("doctrans/parser_utils.py", "_interpolate_return"),
    ("doctrans/parser_utils.py", "ir_merge"),
]


def extra(ctx, base, replay, ir, feat, text, back):
    want = replay["opts"].get("function_type") or ("static" if replay["kind"] == "function" else "self")
    if back.get("type") != want:
        ctx.report(dict(base, field="function_type", tag="changed", expected=want, observed=back.get("type")), replay)
    ctx.event("function_type_checked")
    names = list(back["params"].keys())
    kw = [n for n in ir["params"] if n.endswith("kwargs")]
    if kw and kw[0] in names and names[-1] != kw[0]:
        ctx.report(dict(base, field="kwargs_position", tag="not_last", expected=kw[0], observed=str(names)), replay)


def run(ctx):
    ctx.require("parse.function", 5)
    ctx.require("parse.method", 5)
    ctx.require("function_type_checked", 10)
    n = ctx.n(5000, 160000)
    run_kind(ctx, OP, "function", n // 3, knobs(hostile_strings=not ctx.quick(), p_doc_states_default=0.15, p_hyphen_tokens=0.3), extra_check=extra)
    run_kind(ctx, OP, "method", n - n // 3, knobs(hostile_strings=not ctx.quick(), p_doc_states_default=0.15, p_hyphen_tokens=0.3), extra_check=extra)
    # unsupported by design: other docstring formats
    from doctrans import emit
    from ..gen_ir import IRGen

    ir, _ = IRGen(ctx.rng).ir()
    for fmt in ("numpydoc", "google"):
        try:
            emit.function(ir, "f", "static", docstring_format=fmt)
        except NotImplementedError:
            ctx.event("notimplemented_as_documented")
        except Exception as e:  # any other exception type is a violation
            ctx.report_exception(e, {"op": OP, "kind": "function", "docstring_format": fmt}, None, stage="emit")


def replay(payload):
    return replay_roundtrip(PROPERTY, OP, payload, extra)
