"""C17 -- defaults survive the trip through prose with value and type intact.

E: set_default_doc((name, {doc, typ, default})) -> doc' ; extract_default(doc', typ,
   emit_default_doc in {True, False}) -> (prose, value); extract_default on prose that
   merely mentions 'default'.
O: value equals the default by canonical value and type; with removal, prose equals the
   original prose (plus at most one separating full stop); without removal prose == doc';
   prose without an announcement phrase is returned untouched with None.
Per-call icontract contracts on extract_default observe every call (also in situ).
"""
import random

from ..canon import ABSENT, canon_default, describe_default_change, prose_equal
from ..gen_ir import IRGen, knobs, NoneStr

from collections import OrderedDict  # noqa: E402

PROPERTY = "C17"
LEVEL = "exploration"
SHARDS = {"quick": 4, "thorough": 16}
TIMEOUT = {"quick": 600, "thorough": 3000}
RULE = (
    "the removal helpers (parameter and return entry, emit_default_prop on/off) must agree with the codec; generated (prose, value, declared type) triples, type consistent with value, over every value kind (int pos/zero/"
    "neg/large, float pos/neg/exp/integral, bool, None, str plain/space/path and in thorough dot/empty/quote, "
    "back-tick code list/tuple/dict/call/dotted-call/arith) x prose classes (plain, number, paren, back-tick, full "
    "stop, comma, the word 'default', ...) x rendering {set_default_doc, harness renderer with each of the four "
    "announcement phrases} x removal on/off; non-trivial = the triple has a default; distinct = distinct (type class, "
    "default class, prose class, phrase, removal, value)"
)
ASSUMPTIONS = [
    "string values are compared modulo one layer of surrounding quotes (quote/unquote are the documented rendering guard)",
    "held = held on the executions observed",
]
ANCHORS = [
    ("doctrans/defaults_utils.py", "extract_default"),
    ("doctrans/defaults_utils.py", "set_default_doc"),
    ("doctrans/pure_utils.py", "location_within"),
    ("doctrans/emitter_utils.py", "interpolate_defaults"),
]

PHRASES = ("Defaults to ", "defaults to ", "Default value is ", "Default: ", "defaults to\n", "Defaults to\n")


def _unq(v):
    if isinstance(v, str) and len(v) > 1 and v[0] == v[-1] and v[0] in "'\"":
        return v[1:-1]
    return v


def install_contracts(ctx):
    """icontract post-conditions on the REAL extract_default, rebound in every doctrans
    module that imported it by name.  Conditions record and return True."""
    import icontract
    import sys

    import doctrans.defaults_utils as du

    orig = du.extract_default
    phrases = ("defaults to ", "defaults to\n", "default value is ", "default:")

    def no_announcement_untouched(line, result, default_search_announce=None):
        ctx.event("contract:extract_default")
        if line is None or default_search_announce is not None:
            return True
        if not any(p in line.casefold() for p in phrases):
            ctx.event("contract:no_announcement")
            if result != (line, None):
                ctx.report({"op": "contract", "field": "contract", "tag": "altered_without_announcement",
                            "expected": repr((line, None))[:300], "observed": repr(result)[:300]}, {"line": line})
        return True

    def keep_doc_when_not_removing(line, result, emit_default_doc=True):
        if line is not None and emit_default_doc and result[0] != line:
            ctx.report({"op": "contract", "field": "contract", "tag": "prose_changed_without_removal",
                        "expected": repr(line)[:300], "observed": repr(result[0])[:300]}, {"line": line})
        return True

    wrapped = icontract.ensure(no_announcement_untouched)(icontract.ensure(keep_doc_when_not_removing)(orig))
    undo = []
    for modname, mod in list(sys.modules.items()):
        if mod is not None and (modname == "doctrans" or modname.startswith("doctrans.")):
            for k, v in list(vars(mod).items()):
                if v is orig:
                    setattr(mod, k, wrapped)
                    undo.append((mod, k, orig))
    return lambda: [setattr(m, k, o) for m, k, o in undo]


def one(ctx, name, prose, doc_class, typ, typ_class, value, default_class, how, remove):
    from doctrans.defaults_utils import extract_default, needs_quoting, set_default_doc
    from doctrans.pure_utils import quote

    base = {"op": "default_codec", "typ_class": typ_class, "default_class": default_class, "doc_class": doc_class,
            "render": how, "removal": remove, "param_kind": "param"}
    replay = {"name": name, "prose": prose, "typ": typ, "value": value, "render": how, "removal": remove}
    try:
        if how == "set_default_doc":
            p = {"doc": prose, "default": value}
            if typ is not None:
                p["typ"] = typ
            doc2 = set_default_doc((name, p), emit_default_doc=True)[1]["doc"]
        else:
            v = None if value == NoneStr else value
            rendered = quote(v) if (needs_quoting(typ) and isinstance(v, str)) else v
            sep = "" if prose.endswith((".", ",")) else "."
            doc2 = "{}{} {}{}".format(prose, sep, how, rendered) if prose else "{}{}".format(how, rendered)
    except Exception as e:
        ctx.report_exception(e, base, replay, stage="emit")
        return
    replay["doc2"] = doc2
    ctx.event("render:" + ("set_default_doc" if how == "set_default_doc" else "harness"))
    try:
        out_prose, out_val = extract_default(doc2, typ=typ, emit_default_doc=not remove)
    except Exception as e:
        ctx.report_exception(e, base, replay, stage="parse")
        return
    ctx.event("extract_default")
    exp = canon_default(value)
    if value == NoneStr and out_val == "None":
        # extract_default reports "no default found" as None, so the bare word None is its
        # spelling of the None marker (doctrans.pure_utils.none_types); what must not happen
        # is that word reaching an IR as a string -- the interpolation step below checks that
        out_val = NoneStr
    got = canon_default(_unq(out_val) if out_val is not None else (NoneStr if value == NoneStr and out_val is None else ABSENT))
    if out_val is None and value != NoneStr:
        got = ("absent",)
    if got != exp:
        ctx.report(dict(base, field="default", tag=describe_default_change(value, _unq(out_val) if out_val is not None else ABSENT),
                        expected=repr(value), observed=repr(out_val)), replay)
    # the "interpolation into params" mechanism must agree with the codec
    try:
        from doctrans.emitter_utils import interpolate_defaults

        p2 = {"doc": doc2}
        if typ is not None:
            p2["typ"] = typ
        _, p2 = interpolate_defaults((name, p2), emit_default_doc=not remove)
        ctx.event("interpolate_defaults")
        got2 = canon_default(p2.get("default", ABSENT))
        if got2 != exp and got == exp:
            ctx.report(dict(base, field="default", tag="interpolate_disagrees", expected=repr(value),
                            observed=repr(p2.get("default", ABSENT))), replay)
    except Exception as e:
        ctx.report_exception(e, base, replay, stage="interpolate")
    # the removal helpers (one parameter / a whole description) must agree with the codec: same prose, and the value handed
    # over as the `default` property exactly when asked to (whatever the value: 0, 0.0 and False are values)
    try:
        from doctrans.defaults_utils import _remove_default_from_param, remove_defaults_from_intermediate_repr

        ref_prose, ref_val = extract_default(doc2, emit_default_doc=False)
        for prop in (True, False):
            _, p3 = _remove_default_from_param((name, {"doc": doc2}), emit_default_prop=prop)
            ir3 = remove_defaults_from_intermediate_repr(
                {"name": "f", "doc": "d", "params": OrderedDict([(name, {"doc": doc2})]),
                 "returns": OrderedDict([("return_type", {"doc": doc2})])}, emit_default_prop=prop)
            ctx.event("removal_helpers")
            for route, got3 in (("_remove_default_from_param", p3), ("remove_defaults_from_intermediate_repr:param", ir3["params"][name]),
                                ("remove_defaults_from_intermediate_repr:return", ir3["returns"]["return_type"])):
                want = canon_default(ref_val) if (prop and ref_val is not None) else ("absent",)
                have = canon_default(got3.get("default", ABSENT))
                if have != want:
                    ctx.report(dict(base, field="default", tag="removal_helper_disagrees_with_codec", route=route, emit_default_prop=prop,
                                    expected=repr(ref_val if prop else ABSENT), observed=repr(got3.get("default", ABSENT))), replay)
                if got3.get("doc") != ref_prose:
                    ctx.report(dict(base, field="doc", tag="removal_helper_disagrees_with_codec", route=route, emit_default_prop=prop,
                                    expected=repr(ref_prose), observed=repr(got3.get("doc"))), replay)
    except Exception as e:
        ctx.report_exception(e, base, replay, stage="removal_helpers")
    if remove:
        ok, tag = prose_equal(prose, out_prose)
        if not ok:
            ctx.report(dict(base, field="doc", tag=tag, expected=repr(prose), observed=repr(out_prose)), replay)
    elif out_prose != doc2:
        ctx.report(dict(base, field="doc", tag="changed_without_removal", expected=repr(doc2), observed=repr(out_prose)), replay)


def run(ctx):
    undo = install_contracts(ctx)
    from doctrans.defaults_utils import extract_default  # the contracted one
    ctx.require("extract_default", 100)
    ctx.require("contract:extract_default", 100)
    ctx.require("contract:no_announcement", 10)
    g = IRGen(ctx.rng, knobs(hostile_strings=not ctx.quick(), p_no_default=0.0, p_untyped=0.2, p_no_doc=0.0))
    n = ctx.n(20000, 1200000)
    try:
        for i in range(n):
            name = "p{}".format(i % 50)
            prose, doc_class = g.prose(name)
            if i % 13 == 5:
                # no prose at all in front of the announcement (":param lr: Defaults to 0.001")
                prose, doc_class = "", "empty"
            elif i % 7 == 3:
                # very short descriptions (the whole line is shorter than the longest announcement phrase)
                prose, doc_class = ctx.rng.choice(["x", "On.", "Rate", "lr", "n."]), "very_short"
            typ, tc, value, dc = g.typ_and_default(name)
            if i % 23 == 7:
                # a string whose text is the word None, under a type that makes the codec quote it
                typ, tc, value, dc = ctx.rng.choice([("str", "scalar_str"), ("Optional[str]", "optional_str"), ("Union[int, str]", "union_scalar")]) + ("None", "str_none_word")
            if i % 31 == 9:
                # a string whose own text begins / ends with the quote mark the renderer wraps it in
                typ, tc = ctx.rng.choice([("Optional[str]", "optional_str"), ("Union[int, str]", "union_scalar")])
                value, dc = ctx.rng.choice(['say "zq hi"', '3.5"', '"zq quoted" first']), "str_edge_quote"
            if i % 29 == 11:
                # numbers and booleans under a type that also admits strings (the renderer's quoting path sees them);
                # 1.0 / True and 0.0 / False are EQUAL values of different types
                typ, tc = ctx.rng.choice([("Union[float, str]", "union_float_str"), ("Union[bool, str]", "union_bool_str"), ("Optional[Union[float, bool, str]]", "union_float_bool_str")])
                value = ctx.rng.choice([1.0, True, 0.0, False, 2.5, -1.0])
                dc = {1.0: "float_one", 0.0: "float_zero", 2.5: "float_pos", -1.0: "float_neg"}[value] if isinstance(value, float) else ("bool_true" if value else "bool_false")
            if value is IRGen.MISSING:
                continue
            how = "set_default_doc" if (i % 3 == 0 and prose) else PHRASES[(i // 3) % 6]
            remove = bool((i // 2) % 2)
            ctx.case((tc, dc, doc_class, how, remove, repr(value)), nontrivial=True,
                     sample={"prose": prose, "typ": typ, "value": repr(value), "render": how, "removal": remove},
                     sample_key=dc)
            ctx.feature("default=" + dc)
            ctx.feature("render=" + how.strip())
            one(ctx, name, prose, doc_class, typ, tc, value, dc, how, remove)
            # prose that merely mentions the word: never altered
            if i % 5 == 0:
                for mode in (True, False):
                    try:
                        res = extract_default(prose, typ=typ, emit_default_doc=mode)
                    except Exception as e:
                        ctx.report_exception(e, {"op": "default_codec", "doc_class": doc_class, "render": "none"}, {"prose": prose})
                        continue
                    ctx.event("plain_prose_checked")
                    if res != (prose, None):
                        ctx.report({"op": "default_codec", "field": "doc", "tag": "altered_without_announcement",
                                    "doc_class": doc_class, "expected": repr((prose, None)), "observed": repr(res)},
                                   {"prose": prose, "typ": typ})
    finally:
        undo()


def replay(payload):
    from ..runner import Ctx

    rp = payload["replay"]
    ctx = Ctx(PROPERTY, "quick", 0)
    ctx.case(("replay",))
    d = payload["discrepancy"]
    if "value" in rp:
        one(ctx, rp["name"], rp["prose"], d.get("doc_class"), rp["typ"], d.get("typ_class"), rp["value"],
            d.get("default_class"), rp["render"], rp["removal"])
    return ctx
