"""C20 -- rejected or failing invocations never damage source files.

E: directory snapshot before/after; exit status and stderr; which failpoint fired.
O: (a) rejected invocations exit non-zero with a usage/refusal message (an internal
       exception type is a violation), snapshot identical;
   (b) accepted argument combinations run without an internal error;
   (c) for every multi-file operation and EVERY fault point -- conversion step j, and per
       write: before open / after open before write / mid-write, as error and as crash --
       each file afterwards is byte-identical to before OR equals the complete output of
       the fault-free run (and parses).
"""
import ast
import os
import shutil
import subprocess
import sys
import tempfile

from .. import env
from ..faults import EmitterFaults
from ..monitors import InjectedNonOSFault, FailOpen, InjectedFault, bind_open, diff_snap, snapshot_dir
from ..syncsim import KINDS, Project, make_project, run_api, run_cli

PROPERTY = "C20"
LEVEL = "fault_enumeration"
SHARDS = {"quick": 6, "thorough": 16}
TIMEOUT = {"quick": 1200, "thorough": 3400}
OP = "fault"
RULE = (
    "write faults also with the condition persisting (later opens truncate, later writes fail); fault enumeration: for each generated project and each multi-file operation (sync with 2-3 targets in mixed "
    "pre-states, sync_properties, gen) a dry run measures the n write-mode opens and m emitter calls; then EVERY fault "
    "point is injected on a fresh copy of the project: conversion step j in 0..m-1, and for each write k in 0..n-1 the "
    "three positions {before open, after open before first write, mid-write} each as I/O error (in-process) and as "
    "crash (os._exit in a CLI subprocess); afterwards each file must equal its pre-state or its fault-free post-state. "
    "Rejected invocations (five classes, varied argument orders/paths) and accepted argument combinations are run through "
    "the real command line; non-trivial = the fault fired / the invocation was decided; distinct = distinct (operation, "
    "project, fault point, mode)"
)
ASSUMPTIONS = [
    "faults are simulated at the Python I/O boundary (the name `open` bound in doctrans.emit/gen/conformance/sync_properties, "
    "file.write, os._exit); kernel page-cache semantics of a power loss are out of scope",
    "held = held on the executions observed",
]
ANCHORS = [
    ("doctrans/emit.py", "file"),
    ("doctrans/conformance.py", "ground_truth"),
    ("doctrans/conformance.py", "_conform_filename"),
    ("doctrans/sync_properties.py", "sync_properties"),
    ("doctrans/gen.py", "gen"),
]


def dt_modules():
    import doctrans.conformance
    import doctrans.emit
    import doctrans.gen
    import doctrans.sync_properties

    import shutil

    # (shutil too: a copy INTO an existing project file is a write to that file like any other)
    return [doctrans.emit, doctrans.gen, doctrans.conformance, doctrans.sync_properties, shutil]


# ------------------------------------------------------------------------------ operations
class Operation:
    """A multi-file operation on a project directory that can be re-created at will."""

    def __init__(self, name, build, api, argv):
        self.name, self.build, self.api, self.argv = name, build, api, argv


def op_sync(rng, seed_i):
    truth = KINDS[seed_i % 3]
    others = [k for k in KINDS if k != truth]
    pres = [("stale", "missing"), ("absent", "stale"), ("missing", "empty"), ("stale", "absent"), ("agreeing", "missing")][seed_i % 5]
    pre = {others[0]: pres[0], others[1]: pres[1]}
    state = rng.getstate()

    def build(root):
        import random

        r = random.Random()
        r.setstate(state)
        return make_project(r, root, truth, pre, method=False, rich=seed_i % 2 == 0)

    def api(p):
        from doctrans.conformance import ground_truth
        import contextlib
        import io

        with contextlib.redirect_stdout(io.StringIO()):
            ground_truth(p.args(), os.path.realpath(p.files[p.truth]))

    return Operation("sync", build, api, lambda p: p.cli_argv()), {"truth": truth, "pre": pre}


def op_sync_properties(rng, seed_i):
    in_src = "from typing import Optional, Literal\n\nclass Foo(object):\n    def g(self, f: Literal['a_{0}'], z: int = 1):\n        return f\n".format(seed_i)
    out_src = "from typing import Optional, Literal\n\nZQ_KEEP = {0}\n\ndef f(h: Literal['b'], k=2):\n    return h\n\nclass Bar(object):\n    def m(self, q: int):\n        return q\n".format(seed_i)

    def build(root):
        p = Project(root)
        p.files = {"in": os.path.join(root, "in_mod.py"), "out": os.path.join(root, "out_mod.py")}
        with open(p.files["in"], "w") as f:
            f.write(in_src)
        with open(p.files["out"], "w") as f:
            f.write(out_src)
        return p

    pairs = [("Foo.g.f", "f.h"), ("Foo.g.f", "Bar.m.q")][: 1 + seed_i % 2]

    def api(p):
        from doctrans.sync_properties import sync_properties

        sync_properties(input_eval=False, input_filename=p.files["in"], input_params=[a for a, _ in pairs],
                        output_filename=p.files["out"], output_params=[b for _, b in pairs], output_param_wrap=None)

    def argv(p):
        a = ["sync_properties", "--input-filename", p.files["in"], "--output-filename", p.files["out"]]
        for x, y in pairs:
            a += ["--input-param", x, "--output-param", y]
        return a

    return Operation("sync_properties", build, api, argv), {"pairs": len(pairs)}


GEN_INPUT_SRC = ("class Klass(object):\n    '''\n    The zq class\n    '''\n\n    def __init__(self, a=5, b='x'):\n        '''\n        Init\n\n"
           "        :param a: the a\n\n        :param b: the b\n        '''\n        self.a = a\n\ninput_map = {'Klass': Klass}\n")


def op_gen(rng, seed_i):
    modname = "zqc20in_{}".format(seed_i)
    src = GEN_INPUT_SRC
    type_ = ("class", "argparse", "function")[seed_i % 3]

    def build(root):
        p = Project(root)
        p.files = {"in": os.path.join(root, modname + ".py"), "out": os.path.join(root, "generated.py")}
        with open(p.files["in"], "w") as f:
            f.write(src)
        return p

    def api(p):
        from doctrans.gen import gen
        import contextlib
        import io

        sys.path.insert(0, p.root)
        try:
            with contextlib.redirect_stdout(io.StringIO()):
                gen(name_tpl="{name}Config", input_mapping=modname + ".input_map", type_=type_, output_filename=p.files["out"])
        finally:
            sys.path.remove(p.root)
            sys.modules.pop(modname, None)

    def argv(p):
        return ["gen", "--name-tpl", "{name}Config", "--input-mapping", modname + ".input_map", "--type", type_, "-o", p.files["out"]]

    return Operation("gen", build, api, argv), {"type": type_}


# ------------------------------------------------------------------------------ fault runs
def judge(ctx, base, replay, pre, post_ok, after, root, crash):
    """each file: == pre-state, or == complete fault-free post-state (and parses)."""
    for rel in sorted(set(pre) | set(after) | set(post_ok)):
        a = after.get(rel)
        ok_pre = pre.get(rel)
        ok_post = post_ok.get(rel)
        ctx.event("files_judged")
        if a == ok_pre or (a is not None and a == ok_post):
            continue
        if a is None:
            tag = "deleted"
        elif rel not in pre and rel not in post_ok:
            if crash and rel.endswith(".tmp"):
                # a process that is killed cannot clean up its temporary sibling; the
                # source files themselves are what the property is about
                ctx.event("stray_temporary_after_crash")
                continue
            tag = "stray_file_left_behind"
        else:
            size = a[1]
            tag = "empty_file" if size == 0 else "partial_or_foreign_content"
            if size:
                try:
                    ast.parse(open(os.path.join(root, rel)).read())
                    tag = "parses_but_neither_old_nor_new"
                except SyntaxError:
                    tag = "half_written_does_not_parse"
                except Exception:
                    pass
        ctx.report(dict(base, field="file_state", tag=tag, file=rel, existed_before=rel in pre,
                        expected="pre-state or complete post-state", observed=str(a)), replay)


def enumerate_faults(ctx, op, meta, tmproot, crash_sample):
    # -- dry run: fault-free post-state + number of write opens / emitter calls
    root0 = tempfile.mkdtemp(prefix="dry", dir=tmproot)
    try:
        p0 = op.build(root0)
        pre = snapshot_dir(root0)
        counter = FailOpen(k=None, root=os.path.realpath(root0))
        undo = bind_open(counter, dt_modules())
        ef = EmitterFaults(None).install()
        dry_exc = None
        try:
            op.api(p0)
        except BaseException as e:
            dry_exc = e
        finally:
            undo()
            ef.undo()
        post_ok = snapshot_dir(root0)
        n_writes, m_steps = counter.count, ef.count
    finally:
        shutil.rmtree(root0, ignore_errors=True)
    base0 = dict(op=OP, operation=op.name, n_writes=n_writes, m_steps=m_steps, **{k: str(v) for k, v in meta.items()})
    if dry_exc is not None:
        ctx.event("dry_run_failed")
        return
    ctx.event("operations")
    ctx.event("write_points_measured", n_writes)
    ctx.event("conversion_steps_measured", m_steps)
    points = [("step", j, None) for j in range(m_steps)] + [("write", k, mode) for k in range(n_writes) for mode in ("before_open", "before_write", "mid_write", "at_close")]
    # the same write faults once more with the condition persisting (the disk stays full: every later write fails too)
    points += [("write", k, mode + "+persistent") for k in range(n_writes) for mode in ("before_write", "mid_write", "at_close")]
    # ... and a failure in the middle of a write that is not an OSError at all (MemoryError; an interrupt or an encoding error alike)
    points += [("write", k, "mid_write_non_os_error") for k in range(n_writes)]
    for kind, idx, mode in points:
        persistent = bool(mode) and mode.endswith("+persistent")
        mode = mode[: -len("+persistent")] if persistent else mode
        for crash in (False, True):
            if crash and persistent:
                continue
            if crash and (kind == "step" or not crash_sample or mode == "mid_write_non_os_error"):
                continue
            root = tempfile.mkdtemp(prefix="f", dir=tmproot)
            try:
                p = op.build(root)
                base = dict(base0, fault_kind=kind, fault_index=idx, fault_mode=mode or "raise", crash=crash, fault_persists=persistent)
                replay = {"what": "fault", "seed": ctx.seed, "tier": ctx.tier, "maker": meta.get("maker"), "case": meta.get("case"),
                          "operation": op.name, "meta": {k: str(v) for k, v in meta.items()}, "fault": [kind, idx, mode, crash, persistent]}
                ctx.case((op.name, tuple(sorted((k, str(v)) for k, v in meta.items())), kind, idx, mode, crash, persistent), nontrivial=True,
                         sample={"operation": op.name, "meta": {k: str(v) for k, v in meta.items()}, "fault": [kind, idx, mode, "crash" if crash else "error"]},
                         sample_key=(op.name, kind, crash))
                fired = False
                # post-state keys are relative: recompute with this root
                if crash:
                    e = {"DTVERIF_FAIL_OPEN_K": str(idx), "DTVERIF_FAIL_MODE": mode, "DTVERIF_FAIL_CRASH": "1", "DTVERIF_FAIL_ROOT": os.path.realpath(root),
                         "PYTHONPATH": os.pathsep.join([env.ROOT, env.REPO, root])}
                    pr = subprocess.run([sys.executable, "-m", "dtverif.cli_launcher"] + op.argv(p), cwd=env.ROOT, env=env.child_env(e),
                                        capture_output=True, text=True, timeout=180)
                    fired = pr.returncode == 137
                    ctx.event("crash_runs")
                else:
                    fo = FailOpen(k=idx if kind == "write" else None, mode=mode, root=os.path.realpath(root), persistent=persistent)
                    undo = bind_open(fo, dt_modules())
                    ef = EmitterFaults(idx if kind == "step" else None).install()
                    try:
                        op.api(p)
                    except (InjectedFault, InjectedNonOSFault):
                        pass
                    except BaseException as e:
                        ctx.report_exception(e, base, replay, stage="after_fault")
                    finally:
                        undo()
                        ef.undo()
                    fired = fo.fired or ef.fired
                    ctx.event("error_runs")
                if not fired:
                    ctx.event("fault_did_not_fire")
                    continue
                ctx.event("faults_fired")
                ctx.feature("{}:{}:{}".format(op.name, (mode or "step") + ("+persistent" if persistent else ""), "crash" if crash else "error"))
                if persistent:
                    ctx.event("persistent_faults_fired")
                    ctx.event("opens_after_a_persistent_fault", getattr(fo, "later_opens", 0))
                judge(ctx, base, replay, pre, post_ok, snapshot_dir(root), root, crash)
            finally:
                shutil.rmtree(root, ignore_errors=True)


# ------------------------------------------------------------------------------ rejected / accepted invocations
INTERNAL = ("TypeError", "AttributeError", "KeyError", "IndexError", "NameError", "AssertionError", "ValueError", "StopIteration", "UnboundLocalError")


def classify_failure(pr):
    last = (pr.stderr.strip().split("\n") or [""])[-1]
    if "Traceback (most recent call last)" in pr.stderr:
        et = last.split(":")[0].strip()
        return "traceback", et, last
    if "error:" in last or "usage:" in pr.stderr:
        return "usage_error", None, last
    return "other", None, last


def rejected_invocations(ctx, i, tmproot):
    rng = ctx.case_rng("rejected:{}".format(i))
    root = tempfile.mkdtemp(prefix="r", dir=tmproot)
    try:
        truth = KINDS[i % 3]
        others = [k for k in KINDS if k != truth]
        p = make_project(rng, root, truth, {others[0]: "stale", others[1]: "agreeing"}, rich=i % 2 == 0)
        cls = ("missing_truth_file", "fewer_than_two_files", "missing_input_file", "missing_output_file", "existing_gen_output",
               "existing_gen_output_named_with_tilde", "first_file_of_the_truth_kind_missing",
               "input_is_a_directory", "output_is_a_directory", "truth_is_a_directory")[i % 10]
        a_dir = os.path.join(root, "zq_pkg_{}".format(i))
        if cls.endswith("_is_a_directory"):
            os.mkdir(a_dir)  # exists, but is not a file (a package directory given instead of its __init__.py)
        missing = os.path.join(root, "no_such_{}.py".format(i))
        extra_env = None
        flag = {"argparse_function": "--argparse-function", "class": "--class", "function": "--function"}
        if cls == "missing_truth_file":
            parts = [[flag[truth], missing, flag[truth] + "-name", p.names[truth]]] + [[flag[k], p.files[k], flag[k] + "-name", p.names[k]] for k in others]
            rng.shuffle(parts)
            argv = ["sync", "--truth", truth] + [x for part in parts for x in part]
            if i % 2:
                argv = ["sync"] + [x for part in parts for x in part] + ["--truth", truth]
        elif cls == "first_file_of_the_truth_kind_missing":
            # the truth is the FIRST file of its kind; it does not exist, a later file of that kind does
            argv = ["sync", "--truth", truth, flag[truth], missing, flag[truth], p.files[truth], flag[truth] + "-name", p.names[truth],
                    flag[others[0]], p.files[others[0]], flag[others[0]] + "-name", p.names[others[0]]]
        elif cls == "fewer_than_two_files":
            argv = ["sync", "--truth", truth, flag[truth], p.files[truth], flag[truth] + "-name", p.names[truth]]
        elif cls == "truth_is_a_directory":
            argv = ["sync", "--truth", truth, flag[truth], a_dir, flag[truth] + "-name", p.names[truth],
                    flag[others[0]], p.files[others[0]], flag[others[0]] + "-name", p.names[others[0]]]
        elif cls in ("missing_input_file", "missing_output_file", "input_is_a_directory", "output_is_a_directory"):
            bad = a_dir if cls.endswith("_is_a_directory") else missing
            a, b = (bad, p.files[others[0]]) if cls.startswith(("missing_input", "input_is")) else (p.files[truth], bad)
            argv = ["sync_properties", "--input-filename", a, "--input-param", "x.y", "--output-filename", b, "--output-param", "f.h"]
            if i % 2:
                argv = ["sync_properties", "--output-param", "f.h", "--output-filename", b, "--input-param", "x.y", "--input-filename", a]
        else:
            out, mapping = p.files[truth], "os.environ"
            if cls == "existing_gen_output_named_with_tilde":
                # the existing file is named as ~/<file> with HOME pointing at the project (a tilde the shell did not expand)
                out = "~/" + os.path.basename(p.files[truth])
                with open(os.path.join(root, "zqc20map_{}.py".format(i)), "w") as f:
                    f.write(GEN_INPUT_SRC)
                extra_env = {"HOME": os.path.realpath(root), "PYTHONPATH": os.pathsep.join([env.ROOT, env.REPO, root])}
                mapping = "zqc20map_{}.input_map".format(i)
            argv = ["gen", "--name-tpl", "{name}Config", "--input-mapping", mapping, "--type", ("class", "argparse", "function")[i % 3], "-o", out]
        before = snapshot_dir(root)
        pr = subprocess.run([sys.executable, "-m", "dtverif.cli_launcher"] + argv, cwd=env.ROOT, env=env.child_env(extra_env), capture_output=True, text=True, timeout=120)
        after = snapshot_dir(root)
        ctx.case(("rejected", cls, i), nontrivial=True, sample={"class": cls, "argv": argv[:3] + ["..."], "exit": pr.returncode, "stderr_last": (pr.stderr.strip().split("\n") or [""])[-1][:120]}, sample_key=cls)
        ctx.event("rejected_invocations")
        ctx.feature("rejected=" + cls)
        base = {"op": "rejected_invocation", "reject_class": cls}
        replay = {"what": "rejected", "case": i, "seed": ctx.seed, "tier": ctx.tier, "argv": argv}
        how, et, last = classify_failure(pr)
        if pr.returncode == 0:
            ctx.report(dict(base, field="exit_status", tag="accepted", expected="non-zero", observed="0"), replay)
        elif how == "traceback" and (et in INTERNAL or cls.endswith("_is_a_directory")):
            ctx.report(dict(base, field="exit_status", tag="internal_exception", exc=et, msg=last[:160], expected="usage error / refusal", observed=et), replay)
        if before != after:
            ctx.report(dict(base, field="filesystem", tag="modified", expected="untouched", observed=str(diff_snap(before, after))[:200]), replay)
    finally:
        shutil.rmtree(root, ignore_errors=True)


GEN_ACCEPTED_SRC = (
    'class ZqPlain(object):\n    """\n    A zq settings class without methods\n\n    :cvar size: the size\n    """\n    size: int = 3\n\n\n'
    'def zq_doc_only(a=1):\n    """\n    A zq function that only has a docstring\n\n    :param a: the a\n    """\n\n\n'
    'def zq_adder(a=1, b=2):\n    """\n    Adds\n\n    :param a: the a\n\n    :param b: the b\n    """\n    return a + b\n\n\n'
    "input_map = {'ZqPlain': ZqPlain, 'zq_doc_only': zq_doc_only, 'zq_adder': zq_adder}\nwith_body = {'zq_adder': zq_adder}\n")


def accepted_gen_combinations(ctx, tmproot):
    """gen: every --type, with and without --emit-call, over mappings with and without body-less members."""
    combos = [(t, ec, m) for t in ("class", "function", "argparse") for ec in (False, True) for m in ("input_map", "with_body")]
    for ci, (type_, emit_call, mapping) in enumerate(combos):
        if ci % ctx.shard[1] != ctx.shard[0]:
            continue
        root = tempfile.mkdtemp(prefix="g", dir=tmproot)
        try:
            modname = "zqc20acc_{}".format(ci)
            with open(os.path.join(root, modname + ".py"), "w") as f:
                f.write(GEN_ACCEPTED_SRC)
            out = os.path.join(root, "generated.py")
            argv = ["gen", "--name-tpl", "{name}Config", "--input-mapping", "{}.{}".format(modname, mapping), "--type", type_, "-o", out] + (["--emit-call"] if emit_call else [])
            pr = subprocess.run([sys.executable, "-m", "dtverif.cli_launcher"] + argv, cwd=env.ROOT,
                                env=env.child_env({"PYTHONPATH": os.pathsep.join([env.ROOT, env.REPO, root])}), capture_output=True, text=True, timeout=120)
            ctx.case(("accepted_gen", type_, emit_call, mapping), nontrivial=True)
            ctx.event("accepted_gen_combinations")
            how, et, last = classify_failure(pr)
            if pr.returncode != 0 and how == "traceback":
                ctx.report({"op": "accepted_invocation", "subcommand": "gen", "type": type_, "emit_call": emit_call, "mapping_has_bodyless_members": mapping == "input_map",
                            "field": "exit_status", "tag": "internal_exception", "exc": et, "msg": last[:160], "expected": "carried out (or a usage error)", "observed": et},
                           {"what": "accepted_gen", "seed": ctx.seed, "tier": ctx.tier, "argv": argv})
        finally:
            shutil.rmtree(root, ignore_errors=True)


def accepted_combinations(ctx, tmproot):
    """Argument combinations the parsers accept must be carried out without an internal error."""
    flag = {"argparse_function": "--argparse-function", "class": "--class", "function": "--function"}
    combos = []
    for truth in KINDS:
        for subset in ([k for k in KINDS], [truth, [k for k in KINDS if k != truth][0]], [truth, [k for k in KINDS if k != truth][1]]):
            for with_names in ("all", "truth_name_missing", "target_name_missing"):
                combos.append((truth, tuple(subset), with_names))
    for ci, (truth, subset, names) in enumerate(combos):
        if ci % ctx.shard[1] != ctx.shard[0]:
            continue
        root = tempfile.mkdtemp(prefix="a", dir=tmproot)
        try:
            others = [k for k in KINDS if k != truth]
            rng = ctx.case_rng("accepted:{}".format(ci))
            p = make_project(rng, root, truth, {others[0]: "agreeing", others[1]: "missing"}, kinds=subset)
            argv = ["sync", "--truth", truth]
            for k in subset:
                argv += [flag[k], p.files[k]]
                skip = (names == "truth_name_missing" and k == truth) or (names == "target_name_missing" and k != truth)
                if not skip:
                    argv += [flag[k] + "-name", p.names[k]]
            pr = subprocess.run([sys.executable, "-m", "dtverif.cli_launcher"] + argv, cwd=env.ROOT, env=env.child_env(), capture_output=True, text=True, timeout=120)
            ctx.case(("accepted", truth, subset, names), nontrivial=True)
            ctx.event("accepted_combinations")
            how, et, last = classify_failure(pr)
            if pr.returncode != 0 and how == "traceback":
                ctx.report({"op": "accepted_invocation", "truth": truth, "n_kinds": len(subset), "names": names, "field": "exit_status",
                            "tag": "internal_exception", "exc": et, "msg": last[:160], "expected": "carried out (or a usage error)", "observed": et},
                           {"what": "accepted", "seed": ctx.seed, "tier": ctx.tier, "argv": argv})
        finally:
            shutil.rmtree(root, ignore_errors=True)


def run(ctx):
    ctx.require("faults_fired", 30)
    ctx.require("files_judged", 60)
    ctx.require("rejected_invocations", 5)
    ctx.require("accepted_combinations", 3)
    tmproot = tempfile.mkdtemp(prefix="dtverif-c20-")
    try:
        n_projects = ctx.n(12, 300)
        for j in range(n_projects):
            i = j * ctx.shard[1] + ctx.shard[0]
            for maker in (op_sync, op_sync_properties, op_gen):
                if maker is not op_sync and j % 3:
                    continue
                op, meta = maker(ctx.case_rng("{}:{}".format(maker.__name__, i)), i)
                meta = dict(meta, maker=maker.__name__, case=i)
                enumerate_faults(ctx, op, meta, tmproot, crash_sample=(j % (2 if ctx.quick() else 1) == 0))
        for j in range(ctx.n(40, 1200)):
            rejected_invocations(ctx, j * ctx.shard[1] + ctx.shard[0], tmproot)
        accepted_combinations(ctx, tmproot)
        accepted_gen_combinations(ctx, tmproot)
    finally:
        shutil.rmtree(tmproot, ignore_errors=True)
    ctx.note("exhaustive", True)
    ctx.note("exhaustive_note", "every (operation, fault point, mode) measured by the dry run of each generated project is executed")


def replay(payload):
    from ..runner import Ctx

    rp = payload["replay"]
    ctx = Ctx(PROPERTY, rp.get("tier", "quick"), rp.get("seed", 0))
    tmproot = tempfile.mkdtemp(prefix="dtverif-c20-")
    try:
        if rp.get("what") == "rejected":
            rejected_invocations(ctx, rp["case"], tmproot)
        elif rp.get("what") == "accepted":
            accepted_combinations(ctx, tmproot)
        else:
            maker = {"op_sync": op_sync, "op_sync_properties": op_sync_properties, "op_gen": op_gen}[rp["maker"]]
            op, meta = maker(ctx.case_rng("{}:{}".format(rp["maker"], rp["case"])), rp["case"])
            # the whole fault enumeration of that one operation (the recorded fault is among them)
            enumerate_faults(ctx, op, dict(meta, maker=rp["maker"], case=rp["case"]), tmproot, crash_sample=bool(rp["fault"][3]))
    finally:
        shutil.rmtree(tmproot, ignore_errors=True)
    return ctx
