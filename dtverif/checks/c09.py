"""C09 -- sync makes every target agree with the declared truth.

E: a project directory before; one ground_truth(args, truth_file) call (API) or one `sync`
   CLI subprocess; the directory after; parse.* of every named target.
O: every named target file exists; the named definition is found by the INDEPENDENT
   resolver, parses with the matching doctrans parser, and compare(truth_ir, target_ir) is
   clean under the target kind's table, where truth_ir is parsed from the truth BEFORE the
   run.  For every pre-state.
"""
import itertools
import os
import shutil
import tempfile

from ..canon import compare
from ..gen_ir import case_flags, feat_from_ir
from ..kinds import table_for
from ..syncsim import DEF_NAME, KINDS, PRESTATES, SYNC_OPTS, make_project, parse_target, run_api, run_cli

PROPERTY = "C09"
LEVEL = "exploration"
SHARDS = {"quick": 6, "thorough": 16}
TIMEOUT = {"quick": 900, "thorough": 3400}
OP = "sync_agreement"
RULE = (
    "the product truth kind{class,function,argparse_function} x pre-state of each target{missing,empty,definition absent,"
    "stale,agreeing} x function target as top-level function vs method x {3 kinds, 2 kinds} is enumerated completely "
    "(210 configurations; exhaustive over pre-state combinations) with generated interface descriptions (quick 1, "
    "thorough 20 per configuration), surrounding content in the target files, via the Python API and (sample) the "
    "command line; one evaluation = one sync run followed by resolving + parsing every target and comparing it "
    "field-wise with the truth parsed before the run; non-trivial = at least one target was not already agreeing; "
    "distinct = distinct (configuration, IR shape)"
)
ASSUMPTIONS = [
    "the interface descriptions are drawn from the sub-domain on which the per-kind round trips are faithful (typed, "
    "documented, scalar/Optional/Literal parameters), so deviations are attributable to the sync machinery; thorough adds wild IRs",
    "the independent resolver decides where the named definition is",
    "held = held on the executions observed",
]
ANCHORS = [
    ("doctrans/conformance.py", "ground_truth"),
    ("doctrans/conformance.py", "_conform_filename"),
    ("doctrans/conformance.py", "_default_options"),
    ("doctrans/ast_utils.py", "RewriteAtQuery.generic_visit"),
    ("doctrans/ast_utils.py", "RewriteAtQuery.visit_FunctionDef"),
    ("doctrans/ast_utils.py", "find_in_ast"),
]
KIND2 = {"argparse_function": "argparse", "class": "class", "function": "function"}


def configurations():
    cfgs = []
    for truth in KINDS:
        others = [k for k in KINDS if k != truth]
        for s1, s2 in itertools.product(PRESTATES, PRESTATES):
            for method in (False, True):
                cfgs.append({"truth": truth, "kinds": KINDS, "pre": {others[0]: s1, others[1]: s2}, "method": method})
        for other in others:
            for s in PRESTATES:
                for method in (False, True):
                    cfgs.append({"truth": truth, "kinds": tuple(k for k in KINDS if k in (truth, other)), "pre": {other: s}, "method": method})
    return cfgs


def direct_hop(kind, truth_ir, name, method):
    """What a correct sync must leave in the target, given the emitters/parsers as they
    are: parse(emit(truth_ir)) with the options sync uses -- no files involved."""
    import ast as _ast
    from copy import deepcopy

    from ..kinds import emit_kind, parse_kind

    k2, opts = SYNC_OPTS[kind]
    opts = dict(opts, name=name)
    if method:
        opts["function_type"] = "self"
    try:
        src = emit_kind(k2, deepcopy(truth_ir), opts)
        back = parse_kind(k2 if not method else "method", src, opts)
        back.pop("_internal", None)
        return back, None
    except Exception as e:
        return None, type(e).__name__


def ir_diff(a, b):
    from ..gen_ir import ir_jsonable

    ja, jb = ir_jsonable({k: v for k, v in a.items() if k != "_internal"}), ir_jsonable({k: v for k, v in b.items() if k != "_internal"})
    for k in ("name", "type"):
        ja.pop(k, None), jb.pop(k, None)
    if ja == jb:
        return None
    if ja.get("doc") != jb.get("doc"):
        return "summary"
    pa, pb = dict(ja["params"]), dict(jb["params"])
    if list(pa) != list(pb):
        return "param_names_or_order"
    for n in pa:
        if pa[n] != pb[n]:
            return "param:" + ",".join(sorted(k for k in set(pa[n]) | set(pb[n]) if pa[n].get(k) != pb[n].get(k)))
    return "returns"


def evaluate(ctx, p, res, base, replay, truth_ir, via):
    """The C09 oracle on one finished run."""
    if via == "api" and res["exc"] is not None:
        # would the bare emitters fail the same way?  then it is a listed round-trip defect
        directs = {k: direct_hop(k, truth_ir, p.def_name[k], p.method and k == "function") for k in p.files if k != p.truth} if truth_ir else {}
        ctx.report_exception(res["exc"], dict(base, direct_emission_raises=sorted({v[1] for v in directs.values() if v[1]})), replay, stage="sync")
        return  # one root cause per run: what the targets look like after a failure is C20's subject
    if via == "cli" and res["rc"] != 0:
        last = (res["stderr"].strip().split("\n") or [""])[-1]
        directs = {k: direct_hop(k, truth_ir, p.def_name[k], p.method and k == "function") for k in p.files if k != p.truth} if truth_ir else {}
        ctx.report(dict(base, field="raises", stage="sync", exc=last.split(":")[0][:40], exc_in="cli", msg=last[:200],
                        direct_emission_raises=sorted({v[1] for v in directs.values() if v[1]})), replay)
        return
    if truth_ir is None:
        return
    feat = feat_from_ir(truth_ir)
    targets = [(kind, p.files[kind], p.pre[kind], False) for kind in p.files if kind != p.truth] + \
              [(e["kind"], e["path"], e["pre"], True) for e in p.extra]
    for kind, target_path, target_pre, is_extra in targets:
        tb = dict(base, target_kind=kind, target_pre=target_pre, target_is_second_file_of_truth_kind=is_extra,
                  target_func_before=p.features.get(kind + "_func_before", False),
                  target_param_named_like_target_before=p.features.get(("extra" if is_extra else kind) + "_param_named_like_target_before", False),
                  target_is_method=p.method and kind == "function",
                  kind=KIND2[kind])
        ir, problem = parse_target(kind, target_path, p.names[kind])
        ctx.event("targets_checked")
        if is_extra:
            ctx.event("second_files_of_truth_kind_checked")
        if problem:
            _d, _dexc = direct_hop(kind, truth_ir, p.def_name[kind], p.method and kind == "function") if truth_ir else (None, None)
            tb["direct_emission_raises"] = [_dexc] if _dexc else []
            ctx.report(dict(tb, field="target", tag=problem, expected="definition {} in {}".format(p.names[kind], os.path.basename(target_path)), observed=problem), replay)
            continue
        k2, opts = SYNC_OPTS[kind]
        tb.update(case_flags(feat))
        # (1) differential: the target must parse to what emit(truth) parses to
        direct, dexc = direct_hop(kind, truth_ir, p.def_name[kind], p.method and kind == "function")
        if direct is not None:
            diff = ir_diff(direct, ir)
            ctx.event("targets_compared_with_direct_emission")
            if diff:
                ctx.report(dict(tb, field="differs_from_direct_emission", tag=diff.split(":")[0], detail=diff,
                                expected="parse(emit(truth))", observed="parse(target after sync)"), replay)
        # (2) absolute: field-wise against the truth (only on the faithful sub-domain)
        if not base.get("wild"):
            for d in compare(truth_ir, ir, feat, table_for(k2, opts), tb):
                ctx.report(d, replay)
        ctx.event("targets_compared")


def one(ctx, cfg, rich, wild, via, tmproot, with_return=False, key=0):
    root = tempfile.mkdtemp(prefix="p", dir=tmproot)
    wild0 = wild
    try:
        extra = key % 3 == 0 and not (cfg["method"] and cfg["truth"] == "function")
        p = make_project(ctx.case_rng("{}:{}".format(key, with_return)), root, cfg["truth"], cfg["pre"], method=cfg["method"], rich=rich, kinds=cfg["kinds"], wild=wild, with_return=with_return,
                         extra_same_kind=extra, tilde_ok=True)
        if extra:
            ctx.feature("second_file_of_truth_kind")
        wild = wild or with_return  # return entries: judged by the differential oracle only
        truth_ir, problem = parse_target(p.truth, p.files[p.truth], p.names[p.truth])
        base = {"op": OP, "truth": p.truth, "method": p.method, "n_kinds": len(cfg["kinds"]), "rich": rich, "wild": wild, "via": via, "with_return": with_return,
                "pre_states": sorted(set(cfg["pre"].values())), "truth_func_before": p.features.get(p.truth + "_func_before", False),
                "some_file_has_param_named_like_target": p.features.get("some_file_has_param_named_like_target", False)}
        replay = {"cfg": {k: (list(v) if isinstance(v, tuple) else v) for k, v in cfg.items()}, "rich": rich, "wild": wild0, "via": via,
                  "with_return": with_return, "key": key, "seed": ctx.seed, "tier": ctx.tier,
                  "files": {os.path.basename(f): (open(f).read() if os.path.exists(f) else None) for f in list(p.files.values()) + [e["path"] for e in p.extra]}}
        base["truth_problem"] = problem
        base["extra_same_kind"] = bool(p.extra)
        if problem:
            ctx.event("truth_unparseable:" + problem)
        res = run_api(p) if via == "api" else run_cli(p)
        ctx.event("sync_runs:" + via)
        replay["after"] = {os.path.basename(f): (open(f).read() if os.path.exists(f) else None) for f in p.files.values()}
        evaluate(ctx, p, res, dict(base, phase="first_sync"), replay, truth_ir, via)
        if key % 4 == 1 and via == "api" and not cfg["method"] and not wild0 and res["exc"] is None:
            # the truth changes and the same invocation runs again in the same process:
            # every target must now agree with the NEW truth
            from ..syncsim import definition_src
            with open(p.files[p.truth], "w") as f:
                f.write(definition_src(p.truth, p.stale_ir, name=p.def_name[p.truth]) + "\n")
            truth_ir2, problem2 = parse_target(p.truth, p.files[p.truth], p.names[p.truth])
            if truth_ir2 is not None:
                p.pre = {k: ("after_first_sync" if k != p.truth else v) for k, v in p.pre.items()}
                for e in p.extra:
                    e["pre"] = "after_first_sync"
                res2 = run_api(p)
                ctx.event("second_syncs_after_truth_change")
                ctx.feature("second_sync_after_truth_change")
                replay2 = dict(replay, second_phase=True)
                evaluate(ctx, p, res2, dict(base, phase="second_sync_after_truth_change", truth_problem=problem2), replay2, truth_ir2, via)
    finally:
        shutil.rmtree(root, ignore_errors=True)


def run(ctx):
    ctx.require("sync_runs:api", 20)
    ctx.require("targets_compared", 20)
    cfgs = configurations()
    ctx.note("configurations", len(cfgs))
    reps = 1 if ctx.quick() else 20
    tmproot = tempfile.mkdtemp(prefix="dtverif-c09-")
    seen = set()
    try:
        idx = 0
        for rep in range(reps):
            for ci, cfg in enumerate(cfgs):
                idx += 1
                if idx % ctx.shard[1] != ctx.shard[0]:
                    continue
                rich = (ci + rep) % 2 == 1
                wild = (not ctx.quick()) and rep % 5 == 4
                via = "cli" if ((ci + rep) % (10 if ctx.quick() else 7) == 3) else "api"
                sig = (cfg["truth"], tuple(sorted(cfg["pre"].items())), cfg["method"], len(cfg["kinds"]))
                seen.add(sig)
                ctx.case(sig + (rep, rich, wild, via), nontrivial=any(s != "agreeing" for s in cfg["pre"].values()),
                         sample={"truth": cfg["truth"], "pre": cfg["pre"], "method": cfg["method"], "kinds": list(cfg["kinds"]), "via": via},
                         sample_key=(cfg["truth"], len(cfg["kinds"])))
                ctx.feature("truth=" + cfg["truth"])
                for s in cfg["pre"].values():
                    ctx.feature("pre=" + s)
                ctx.feature("via=" + via)
                one(ctx, cfg, rich, wild, via, tmproot, key=idx)
                if len(cfg["kinds"]) == 3 and (ci + rep) % 2 == 0:
                    # the same configuration with a truth that has a return entry
                    ctx.case(sig + (rep, "with_return"), nontrivial=True)
                    ctx.feature("with_return")
                    one(ctx, cfg, rich, False, "api", tmproot, with_return=True, key=idx)
    finally:
        shutil.rmtree(tmproot, ignore_errors=True)
    ctx.note("distinct_configurations_this_shard", len(seen))
    ctx.note("exhaustive", True)


def replay(payload):
    from ..runner import Ctx

    rp = payload["replay"]
    ctx = Ctx(PROPERTY, rp.get("tier", "quick"), rp.get("seed", 0))
    ctx.case(("replay",))
    cfg = dict(rp["cfg"], kinds=tuple(rp["cfg"]["kinds"]))
    tmproot = tempfile.mkdtemp(prefix="dtverif-c09-")
    try:
        one(ctx, cfg, rp["rich"], rp["wild"], rp["via"], tmproot, with_return=rp.get("with_return", False), key=rp.get("key", 0))
    finally:
        shutil.rmtree(tmproot, ignore_errors=True)
    return ctx
