"""Scratch projects for `sync` (C09, C10, C11, C20): generation, execution via the Python
API or the command line (subprocess), byte snapshots, audit events, reports, stdout.
"""
import ast
import contextlib
import io
import os
import subprocess
import sys
from argparse import Namespace
from copy import deepcopy

from . import env
from .gen_ir import IRGen, knobs
from .kinds import emit_kind
from .monitors import AuditLog, diff_snap, snapshot_dir

KINDS = ("argparse_function", "class", "function")
FILE_OF = {"argparse_function": "cli_args.py", "class": "config_class.py", "function": "func_impl.py"}
PRESTATES = ("missing", "empty", "absent", "stale", "agreeing")
DEF_NAME = {"argparse_function": "set_cli_args", "class": "ConfigClass", "function": "f_target"}

# the options sync itself uses when it emits a target
SYNC_OPTS = {
    "argparse_function": ("argparse", dict(emit_default_doc=False, word_wrap=True)),
    "class": ("class", dict(emit_default_doc=False, word_wrap=True)),
    "function": ("function", dict(emit_default_doc=False, word_wrap=True, function_type="static", inline_types=True,
                                  emit_as_kwonlyargs=True, indent_level=2, emit_separating_tab=False)),
}


def sync_ir_gen(rng, wild=False, with_return=False):
    """IRs on which the per-kind round trips are faithful (typed + documented, plain
    defaults), so that what the sync checks observe is the sync machinery itself."""
    if wild:
        return IRGen(rng, knobs(argparse_domain=True))
    return IRGen(rng, knobs(argparse_domain=True, p_untyped=0.0, p_no_doc=0.0, p_none_default=0.0, p_hostile_doc=0.0,
                            p_long_doc=0.0, p_long_summary=0.0, p_multi_line_summary=0.0, p_kwargs=0.15,
                            p_zero_params=0.0, p_return=1.0 if with_return else 0.0, p_return_default=1.0, p_return_typ=1.0,
                            p_return_doc=1.0, p_code_default=0.0, max_params=4))


def restrict_ir(ir):
    """keep only scalar / Optional[scalar] / Literal[str] typed parameters"""
    for n in list(ir["params"]):
        t = ir["params"][n].get("typ")
        if n.endswith("kwargs"):
            continue
        if t not in ("str", "int", "float", "bool") and not (t or "").startswith(("Optional[", "Literal['")):
            del ir["params"][n]
        elif t == "bool" and "default" not in ir["params"][n]:
            ir["params"][n]["default"] = False
    return ir


def surrounding(rng, tag, rich, same_names=()):
    """(before_lines, after_lines) of unrelated top-level statements carrying markers."""
    if not rich:
        return [], []
    pool = [
        ["import os"], ["from typing import Optional, List, Literal"], ["import json as zq_json_{}".format(tag)],
        ["ZQ_CONST_{0} = {1}".format(tag, rng.randint(1, 99))],
        ["ZQ_ANN_{0}: int = {1}".format(tag, rng.randint(1, 99))],
        ["def zq_helper_{0}({1}):".format(tag, ", ".join(same_names[:2]) or "a, b"), "    zq_h_{0} = 1".format(tag), "    return zq_h_{0}".format(tag)],
        ["class ZqOther_{0}(object):".format(tag), "    zq_attr_{0} = 3".format(tag), "    def f_target(self, zq_x=1):", "        return zq_x",
         "    def set_cli_args(self, argument_parser):", "        return argument_parser"],
        ["class ZqOuter_{0}(object):".format(tag), "    class ZqInner_{0}(object):".format(tag), "        zq_deep_{0} = 1".format(tag)],
        # same simple names as the targets, but under a different qualified path
        ["class ZqHolder_{0}(object):".format(tag), "    class ConfigClass(object):", "        zq_nested_same_name_{0} = 1".format(tag),
         "    f_target = {0!r}".format("zq_attr_named_like_target_" + tag), "    set_cli_args: int = 7"],
        ["__all__ = ['ConfigClass', 'f_target', 'set_cli_args', 'zq_{0}']".format(tag)],
        # multi-line string literals (not docstrings) with a line that holds only blanks
        ['ZQ_BANNER_{0} = """zq first'.format(tag), "  ", "   zq last", '"""',
         "def zq_expected_{0}():".format(tag), '    return """zq a', "\t", '    zq b"""'],
        # positional-only parameters (top level and as a method of another class)
        ["def zq_scale_{0}(zq_a, /, zq_b=2, *, zq_c=3):".format(tag), "    return zq_a * zq_b + zq_c", "",
         "class ZqPos_{0}(object):".format(tag), "    def zq_train(self, zq_epochs, /, zq_name='x'):", "        return zq_epochs, zq_name"],
        # a plain function that binds the targets' simple names locally, inside compound statements
        ["def zq_loader_{0}(zq_path):".format(tag), "    with open(zq_path) as zq_f:", "        ConfigClass = zq_f.read()",
         "    if ConfigClass:", "        f_target = len(ConfigClass)", "    else:", "        f_target = 0",
         "    for set_cli_args in range(f_target):", "        pass", "    return ConfigClass, f_target"],
        # generic definitions with their own type parameters (PEP 695; the interpreter doctrans runs under accepts them)
        *([["def zq_first_{0}[ZqT](zq_xs: list[ZqT]) -> ZqT:".format(tag), "    return zq_xs[0]", "",
            "class ZqBox_{0}[ZqT: (int, str)]:".format(tag), "    def zq_map[ZqU](self, zq_f) -> ZqU:", "        return zq_f(self)"]]
          if sys.version_info >= (3, 12) else []),
        # an "attribute docstring": a bare multi-line string statement right after a constant (not in docstring position)
        ["ZQ_TIMEOUT_{0} = 30".format(tag), '"""Seconds to wait zq_{0}.'.format(tag), "    Zero disables zq it.", '"""'],
        # a plain function whose PARAMETERS carry the targets' simple names
        ["def zq_build_{0}(ConfigClass, f_target=3, *, set_cli_args=None):".format(tag), "    return ConfigClass, f_target, set_cli_args"],
        ["def zq_make_{0}(zq_first, set_cli_args=None, f_target=3, ConfigClass=dict):".format(tag), "    return zq_first, ConfigClass"],
    ]
    k_before = rng.randint(0, 3)
    k_after = rng.randint(0, 3)
    chosen = rng.sample(pool, min(len(pool), k_before + k_after))
    before = [l for b in chosen[:k_before] for l in b + [""]]
    after = [l for b in chosen[k_before:] for l in b + [""]]
    if rng.random() < 0.3:
        after += ["if __name__ == '__main__':", "    print('zq_main_{}')".format(tag)]
    return before, after


def definition_src(kind, ir, name=None, method=False):
    k, opts = SYNC_OPTS[kind]
    opts = dict(opts)
    if method:
        opts["function_type"] = "self"
    opts["name"] = name or DEF_NAME[kind]
    return emit_kind(k, deepcopy(ir), opts)


class Project:
    def __init__(self, root):
        self.root = root
        self.files = {}  # kind -> path
        self.names = {}  # kind -> dotted name
        self.pre = {}  # kind -> prestate
        self.truth = None
        self.features = {}
        self.method = False
        self.truth_ir = None
        self.stale_ir = None
        self.alias = None  # a symlink to root through which every file is named
        self.extra = []  # further target files of an already given kind: dict(kind, path, pre)
        self.def_name = dict(DEF_NAME)  # simple name of the definition of each kind in this project
        self.tilde = False  # TARGET files are named as ~/<file> on the command line / in the namespace, with HOME = the project

    def _arg(self, path_, kind):
        if self.tilde and kind != self.truth:
            return "~/" + os.path.basename(path_)
        return path_

    def args(self, kinds=None):
        kinds = kinds or [k for k in KINDS if k in self.files]
        d = dict(truth=self.truth)
        for k in KINDS:
            plural = {"argparse_function": "argparse_functions", "class": "classes", "function": "functions"}[k]
            d[plural] = ([self._arg(self.files[k], k)] + [e["path"] for e in self.extra if e["kind"] == k]) if k in kinds else None
            d[k + "_names"] = [self.names[k]] if k in kinds else None
        return Namespace(**d)

    def cli_argv(self, kinds=None):
        kinds = kinds or [k for k in KINDS if k in self.files]
        argv = ["sync", "--truth", self.truth]
        flag = {"argparse_function": "--argparse-function", "class": "--class", "function": "--function"}
        for k in kinds:
            argv += [flag[k], self._arg(self.files[k], k), flag[k] + "-name", self.names[k]]
            for e in self.extra:
                if e["kind"] == k:
                    argv += [flag[k], e["path"]]
        return argv


def make_project(rng, root, truth, prestates, method=False, rich=False, kinds=KINDS, wild=False, ir=None, stale_ir=None, with_return=False,
                 via_symlink=False, hand_written=False, extra_same_kind=False, crlf_files=False, tilde_ok=False):
    """prestates: {kind: prestate} for the non-truth kinds.
    via_symlink: every file is named through a symlink to the project directory (abspath != realpath).
    hand_written: definitions that exist beforehand carry a comment (so re-generating them changes bytes).
    crlf_files: about a third of the pre-existing files use CRLF line endings."""
    p = Project(root)
    p.truth, p.method = truth, method
    if rng.random() < 0.35:
        # names other than the emitters' own defaults (ConfigClass / set_cli_args), as real projects have
        p.def_name = {"argparse_function": "build_cli", "class": "TrainConfig", "function": "fit_model"}
    g = sync_ir_gen(rng, wild, with_return)
    if ir is None:
        ir, _ = g.ir()
        ir = ir if wild else restrict_ir(ir)
    stale_prose_only = False
    if stale_ir is None:
        stale_ir, _ = g.ir()
        stale_ir = stale_ir if wild else restrict_ir(stale_ir)
        stale_ir["doc"] = "Stale zqstale summary"
        if rng.random() < 0.3:
            # out of date in its words only: names, order, types and defaults already agree with the truth
            stale_ir = deepcopy(ir)
            stale_ir["doc"] = "Stale zqstale summary"
            for n, prm in stale_ir["params"].items():
                if prm.get("doc") and rng.random() < 0.7:
                    prm["doc"] = "outdated zqstale words about " + n
            stale_prose_only = True
    p.truth_ir, p.stale_ir = ir, stale_ir
    feats = {"truth": truth, "method": method, "rich": rich, "n_kinds": len(kinds), "wild": wild, "stale_prose_only": stale_prose_only,
             "custom_names": p.def_name != DEF_NAME}
    todo = [(kind, os.path.join(root, FILE_OF[kind]), "truth" if kind == truth else prestates[kind], False) for kind in kinds]
    if extra_same_kind:
        # a second target file of the truth's own kind, whose path sorts BEFORE the truth file's
        todo.append((truth, os.path.join(root, "a_more_" + FILE_OF[truth]), rng.choice(["stale", "absent", "missing", "agreeing", "empty"]), True))
    for kind, fn, state, is_extra in todo:
        is_method = method and kind == "function"
        name = p.def_name[kind]
        if is_extra:
            p.extra.append({"kind": kind, "path": fn, "pre": state})
        else:
            p.files[kind] = fn
            p.names[kind] = ("C_holder." + name) if is_method else name
            p.pre[kind] = state
        if state == "missing":
            continue
        if state == "empty":
            open(fn, "w").close()
            continue
        before, after = surrounding(rng, kind[:3] + str(rng.randint(100, 999)), rich or state == "absent",
                                    same_names=tuple(n for n in ir["params"] if not n.endswith("kwargs")))
        use_ir = stale_ir if state == "stale" else ir
        lines = list(before)
        if state != "absent" and rich and not is_method and rng.random() < 0.25:
            # optional-dependency idiom: the target's own name is first tried as an import (an import alias carries that name)
            lines = ["try:", "    from zq_legacy.settings import zq_old_helper, {}".format(name), "except ImportError:", "    pass", ""] + lines
            feats["{}_name_imported_before_definition".format("extra" if is_extra else kind)] = True
        func_before = any(l.startswith("def ") for l in before) or any(l.startswith("    def ") for l in before)
        if state != "absent":
            src = definition_src(kind, use_ir, name=name, method=is_method)
            if is_method:
                lines += ["class C_holder(object):", '    """holder zqdoc"""', "    zq_sibling_attr = 1", "",
                          "    def zq_sibling_before(self, q=1):", "        return q", ""] if rng.random() < 0.5 else \
                         ["class C_holder(object):", '    """holder zqdoc"""', "    zq_sibling_attr = 1", ""]
                sib_func_before = any("def zq_sibling_before" in l for l in lines)
                lines += ["    " + l if l.strip() else l for l in src.split("\n")]
                lines += ["", "    def zq_sibling_after(self, r=2):", "        return r", ""]
                feats["method_sibling_func_before"] = sib_func_before
            else:
                lines += src.split("\n") + [""]
                if rng.random() < 0.3:
                    # the name is bound once more right after its definition (registration / decoration idiom)
                    lines += ["{0} = zq_register_{1}({0})".format(name, rng.randint(100, 999)), ""]
                    feats["{}_rebound_after_definition".format("extra" if is_extra else kind)] = True
        elif is_method:
            lines += ["class C_holder(object):", '    """holder zqdoc"""', "    zq_sibling_attr = 1", "",
                      "    def zq_sibling_before(self, q=1):", "        return q", ""]
        lines += after
        if (rich or state == "absent") and rng.random() < 0.3:
            lines = ['"""Module zqdoc for {}'.format(kind), "", "second zqdoc line", '"""', ""] + lines
            if not is_extra:
                feats["{}_module_docstring".format(kind)] = True
        if hand_written and state != "absent":
            at = next((j for j, l in enumerate(lines) if l.startswith(("def " + name, "class " + name)) or l.startswith("    def " + name)), None)
            if at is not None:
                lines.insert(at, lines[at][: len(lines[at]) - len(lines[at].lstrip())] + "# zq hand-written comment above " + name)
        text = "\n".join(lines)
        text = text.rstrip("\n")
        # how the file ends: terminated, unterminated, or unterminated with trailing blanks
        ending = rng.choice(["\n"] * 14 + ["", "", "", " ", "\t", "\n    ", "\n\n"])
        text += ending
        feats["{}_ending".format("extra" if is_extra else kind)] = {"\n": "newline", "": "none", " ": "space", "\t": "tab", "\n    ": "blank_line_unterminated", "\n\n": "two_newlines"}[ending]
        crlf = crlf_files and rng.random() < 0.3
        with open(fn, "w", newline="\r\n" if crlf else None) as f:
            f.write(text)
        if crlf:
            feats.setdefault("crlf_files", []).append(os.path.basename(fn))
        # (for a definition that is not there yet, the scan meets the bystander wherever it stands)
        pn = any(l.startswith(("def zq_build_", "def zq_make_")) for l in (before + after if state == "absent" else before))
        feats["{}_param_named_like_target_before".format("extra" if is_extra else kind)] = pn
        feats["some_file_has_param_named_like_target"] = feats.get("some_file_has_param_named_like_target", False) or \
            any(l.startswith(("def zq_build_", "def zq_make_")) for l in before + after)
        if is_extra:
            continue
        feats["{}_func_before".format(kind)] = func_before
        feats["{}_no_trailing_newline".format(kind)] = not text.endswith("\n")
    feats["pre"] = {k: v for k, v in p.pre.items()}
    feats["via_symlink"], feats["hand_written"] = via_symlink, hand_written
    # (only where every run goes through run_api / run_cli, which point HOME at the project)
    p.tilde = tilde_ok and (not via_symlink) and rng.random() < 0.15
    feats["targets_named_with_tilde"] = p.tilde
    feats["extra_same_kind"] = [e["pre"] for e in p.extra]
    if via_symlink:
        p.alias = root.rstrip(os.sep) + "_lnk"
        os.symlink(root, p.alias)
        p.files = {k: os.path.join(p.alias, os.path.basename(f)) for k, f in p.files.items()}
        for e in p.extra:
            e["path"] = os.path.join(p.alias, os.path.basename(e["path"]))
    p.features = feats
    return p


def run_api(project, kinds=None):
    """Returns dict(report, stdout, exc, audit, before, after)."""
    from doctrans.conformance import ground_truth

    audit = AuditLog.get()
    before = snapshot_dir(project.root)
    audit.begin(project.root, aliases=[project.alias] if project.alias else ())
    buf = io.StringIO()
    exc, report = None, None
    old_home = os.environ.get("HOME")
    if project.tilde:
        os.environ["HOME"] = os.path.realpath(project.root)
    try:
        with contextlib.redirect_stdout(buf):
            report = ground_truth(project.args(kinds), os.path.realpath(project.files[project.truth]))
    except BaseException as e:  # noqa
        exc = e
    finally:
        if project.tilde:
            if old_home is None:
                os.environ.pop("HOME", None)
            else:
                os.environ["HOME"] = old_home
    events = audit.end()
    after = snapshot_dir(project.root)
    return {"report": report, "stdout": buf.getvalue(), "exc": exc, "audit": events, "before": before, "after": after,
            "changed": diff_snap(before, after)}


def run_cli(project, kinds=None, extra_env=None, argv=None, timeout=180):
    before = snapshot_dir(project.root)
    if project.tilde:
        extra_env = dict(extra_env or {}, HOME=os.path.realpath(project.root))
    pr = subprocess.run([sys.executable, "-m", "dtverif.cli_launcher"] + (argv or project.cli_argv(kinds)), cwd=env.ROOT,
                        env=env.child_env(extra_env), capture_output=True, text=True, timeout=timeout)
    after = snapshot_dir(project.root)
    return {"rc": pr.returncode, "stdout": pr.stdout, "stderr": pr.stderr, "before": before, "after": after,
            "changed": diff_snap(before, after)}


def parse_target(kind, path, dotted_name):
    """Find the named definition with the INDEPENDENT resolver and parse it with the
    matching doctrans parser.  Returns (ir or None, problem or None)."""
    from doctrans import parse

    from .refmodels import resolve

    if not os.path.isfile(path):
        return None, "file_missing"
    with open(path) as f:
        src = f.read()
    try:
        tree = ast.parse(src)
    except SyntaxError as e:
        return None, "does_not_parse"
    node, _, _ = resolve(dotted_name.split("."), tree)
    if node is None:
        return None, "definition_not_found"
    try:
        if kind == "class":
            return parse.class_(node), None
        if kind == "function":
            return parse.function(node), None
        return parse.argparse_ast(node), None
    except Exception as e:
        return None, "parser_raised:" + type(e).__name__


def count_definitions(path, simple_name):
    """How many top-level or class-level definitions carry this simple name (growth detector)."""
    if not os.path.isfile(path):
        return 0
    try:
        tree = ast.parse(open(path).read())
    except SyntaxError:
        return -1
    return sum(1 for n in ast.walk(tree) if isinstance(n, (ast.FunctionDef, ast.ClassDef)) and n.name == simple_name)
