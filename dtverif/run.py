import sys

from .runner import main

if __name__ == "__main__":
    sys.exit(main())
