"""C16 -- implementation bodies are carried through conversions verbatim.

E: ast.dump of each non-interface statement before parse and after emit(parse(def)) to the
   same kind and name; for emit.class_(..., emit_call=True) the Name nodes rewritten to
   self.<name>.
O: same statements, same order, none dropped / duplicated, the final return kept exactly
   once; in __call__ a Name is rewritten iff it is a free reference to a parameter
   (computed by the harness with a scope-tracking walk cross-checked by symtable).
"""
import ast
import copy
import symtable

from ..gen_ir import IRGen, ir_copy, knobs
from ..gen_py import gen_function

PROPERTY = "C16"
LEVEL = "exploration"
SHARDS = {"quick": 4, "thorough": 16}
TIMEOUT = {"quick": 900, "thorough": 3400}
OP = "carry_body"
RULE = (
    "return prose that announces a default different from the returned expression; generated user-style functions/methods with bodies from a grammar (assignments, calls with keyword arguments named "
    "like parameters, loops, conditionals with early returns, try/finally, nested functions and lambdas shadowing "
    "parameter names, comprehensions) parsed and re-emitted to the same kind and name; argparse functions with extra "
    "statements; and the same bodies re-homed into a class __call__; one evaluation = one parse+emit with statement-wise "
    "ast.dump comparison; non-trivial = the body has at least one non-interface statement; distinct = distinct (body "
    "statement kinds, signature shape, target)"
)
ASSUMPTIONS = [
    "the set of Names that must become self.<name> is computed by a scope-tracking walk (nested def / lambda parameters and "
    "comprehension targets shadow); symtable cross-checks which nested scopes bind the name",
    "held = held on the executions observed",
]
ANCHORS = [
    ("doctrans/emitter_utils.py", "get_internal_body"),
    ("doctrans/emit.py", "function"),
    ("doctrans/emit.py", "argparse_function"),
    ("doctrans/emitter_utils.py", "_make_call_meth"),
    ("doctrans/emitter_utils.py", "RewriteName.visit_Name"),
    ("doctrans/parse.py", "function"),
    ("doctrans/parse.py", "argparse_ast"),
]


def strip_doc(body):
    if body and isinstance(body[0], ast.Expr) and isinstance(getattr(body[0], "value", None), ast.Constant) and isinstance(body[0].value.value, str):
        return body[1:]
    return body


def stmt_kinds(body):
    return tuple(type(s).__name__ for s in body)


def compare_bodies(ctx, base, replay, before, after, what):
    if base.get("documented_return_default_fills_empty_return"):
        # the interface documents a return default and the body returns nothing (bare `return` / no return at the end):
        # emitting that default as the returned value is the interface speaking, not the body being altered
        def _drop(body):
            return body[:-1] if body and isinstance(body[-1], ast.Return) else body
        before, after = _drop(list(before)), _drop(list(after))
        ctx.event("bodies_compared_without_the_filled_in_return")
    db, da = [ast.dump(s) for s in before], [ast.dump(s) for s in after]
    ctx.event("bodies_compared:" + what)
    if db == da:
        return
    if sorted(db) == sorted(da):
        tag = "reordered"
    elif len(da) < len(db) and all(x in db for x in da):
        tag = "dropped"
    elif len(da) > len(db) and all(x in da for x in db):
        tag = "duplicated_or_added"
    else:
        tag = "changed"
    first = next((i for i, (x, y) in enumerate(zip(db, da)) if x != y), min(len(db), len(da)))
    ctx.report(dict(base, field="body", tag=tag, target=what, first_diff_stmt=(type(before[first]).__name__ if first < len(before) else "end"),
                    n_before=len(db), n_after=len(da),
                    expected=ast.unparse(before[first])[:200] if first < len(before) else "<end>",
                    observed=ast.unparse(after[first])[:200] if first < len(after) else "<end>"), replay)


class ExpectedRewrite(ast.NodeTransformer):
    """Reference: rewrite free references to parameters into self.<name>."""

    def __init__(self, params):
        self.params = set(params)
        self.shadow = [set()]
        self.shadowed_hits = 0

    def _args(self, a):
        return {x.arg for x in a.args + a.kwonlyargs + a.posonlyargs} | ({a.vararg.arg} if a.vararg else set()) | ({a.kwarg.arg} if a.kwarg else set())

    def visit_FunctionDef(self, node):
        self.shadow.append(self.shadow[-1] | self._args(node.args))
        node.body = [self.visit(s) for s in node.body]
        self.shadow.pop()
        return node

    def visit_Lambda(self, node):
        self.shadow.append(self.shadow[-1] | self._args(node.args))
        node.body = self.visit(node.body)
        self.shadow.pop()
        return node

    def _comp(self, node):
        targets = set()
        for g in node.generators:
            for n in ast.walk(g.target):
                if isinstance(n, ast.Name):
                    targets.add(n.id)
        self.shadow.append(self.shadow[-1] | targets)
        self.generic_visit(node)
        self.shadow.pop()
        return node

    visit_ListComp = visit_SetComp = visit_DictComp = visit_GeneratorExp = _comp

    def visit_Name(self, node):
        if node.id in self.params:
            if node.id in self.shadow[-1]:
                self.shadowed_hits += 1
                return node
            return ast.Attribute(ast.Name("self", ast.Load()), node.id, ast.Load())
        return node


def one_function(ctx, spec):
    from doctrans import emit, parse
    from doctrans.source_transformer import to_code

    fd = ast.parse(spec.src).body[0]
    before = strip_doc(fd.body)
    kinds = stmt_kinds(before)
    rc = {None: "no_return", "": "bare_return", "''": "str_empty", "'text'": "str_literal", "0": "falsy_number", "0.0": "falsy_number",
          "False": "falsy_bool", "None": "none", "5": "int", "-1": "int_neg", "zq_result": "name", "(alpha_zq, 2)": "tuple"}.get(spec.ret_expr, "other")
    ctx.feature("return=" + rc)
    ctx.feature("no_params" if not spec.params else "has_params")
    base = {"op": OP, "kind": "function", "fn_kind": spec.kind, "has_doc": spec.has_doc, "has_return_stmt": spec.ret_expr is not None,
            "return_class": rc,
            "has_ret_doc": spec.has_ret_doc, "ret_ann": spec.ret_ann is not None,
            "ret_doc_states_default": bool(spec.get("ret_doc_states_default")),
            "documented_return_default_fills_empty_return": bool(spec.get("ret_doc_states_default")) and spec.ret_expr in (None, ""),
            "has_nested_def": "FunctionDef" in kinds, "has_lambda": "lambda" in spec.src, "has_early_return": "If" in kinds}
    replay = {"what": "function", "src": spec.src, "spec": dict(spec)}
    ctx.case((kinds, spec.kind, spec.has_doc, spec.ret_expr, len(spec.params)), nontrivial=bool(before),
             sample={"src": spec.src}, sample_key=kinds[:2])
    for k in set(kinds):
        ctx.feature("stmt=" + k)
    try:
        ir = parse.function(copy.deepcopy(fd))
    except Exception as e:
        ctx.report_exception(e, base, replay, stage="parse")
        return
    # -- same kind, same name
    for kwonly in (False, True):
        try:
            out = emit.function(ir_copy_keep_body(ir), function_name=spec.name, function_type=spec.kind, emit_default_doc=False,
                                inline_types=True, emit_as_kwonlyargs=kwonly, indent_level=1)
            out_fd = ast.parse(to_code(out)).body[0]
        except Exception as e:
            ctx.report_exception(e, dict(base, emit_as_kwonlyargs=kwonly), replay, stage="emit")
            continue
        ctx.event("emit.function")
        compare_bodies(ctx, dict(base, emit_as_kwonlyargs=kwonly), replay, before, strip_doc(out_fd.body), "function")
    # -- re-homed into a class __call__
    pnames = [p["name"] for p in spec.params]
    if not pnames:
        return
    try:
        cls = emit.class_(ir_copy_keep_body(ir), emit_call=True, class_name="C_target")
        cls_def = ast.parse(to_code(cls)).body[0]
    except Exception as e:
        ctx.report_exception(e, dict(base, target="__call__"), replay, stage="emit_class")
        return
    call = next((s for s in cls_def.body if isinstance(s, ast.FunctionDef) and s.name == "__call__"), None)
    if call is None:
        if before:
            ctx.report(dict(base, field="body", tag="call_method_missing", target="__call__", expected="__call__", observed="absent"), replay)
        return
    ctx.event("emit.class_call")
    er = ExpectedRewrite(pnames)
    exp_body = [ast.fix_missing_locations(er.visit(copy.deepcopy(s))) for s in before]
    if er.shadowed_hits:
        ctx.feature("shadowed_parameter_reference")
    b2 = dict(base, shadowed_refs=er.shadowed_hits > 0)
    # round-trip expectation through unparse for a like-for-like dump
    exp_body = ast.parse("\n".join(ast.unparse(s) for s in exp_body)).body if exp_body else []
    # (__call__ carries no docstring of its own: a leading string there is a statement of the body, unless there is one more)
    call_body = strip_doc(call.body) if len(call.body) == len(exp_body) + 1 else list(call.body)
    compare_bodies(ctx, b2, replay, exp_body, call_body, "__call__")
    # symtable cross-check of the reference: which nested scopes bind a parameter name
    try:
        st = symtable.symtable(spec.src, "<gen>", "exec")
        fn_tab = st.get_children()[0]
        bound_in_children = any(sym.is_parameter() or sym.is_local() for ch in fn_tab.get_children() for sym in ch.get_symbols() if sym.get_name() in pnames)
        ctx.event("symtable_checked")
        if bound_in_children != (er.shadowed_hits > 0 or _children_bind(fd, pnames)):
            ctx.inconclusive.append("scope reference model disagrees with symtable")
    except Exception:
        pass
    # -- one shared description (as sync passes it on): re-homing into a class first must not
    #    change the body the function emitter carries afterwards
    shared = ir_copy_keep_body(ir)
    try:
        emit.class_(shared, emit_call=True, class_name="C_target")
        out = emit.function(shared, function_name=spec.name, function_type=spec.kind, emit_default_doc=False,
                            inline_types=True, emit_as_kwonlyargs=False, indent_level=1)
        out_fd = ast.parse(to_code(out)).body[0]
    except Exception:
        return  # failures of the single emissions are reported above
    ctx.event("emit.function_after_class_on_shared_description")
    compare_bodies(ctx, dict(base, emit_as_kwonlyargs=False, sequence="class_then_function_on_one_description"), replay, before,
                   strip_doc(out_fd.body), "function")


def _children_bind(fd, pnames):
    for n in ast.walk(fd):
        if n is not fd and isinstance(n, (ast.FunctionDef, ast.Lambda)):
            if {a.arg for a in n.args.args} & set(pnames):
                return True
        if isinstance(n, (ast.ListComp, ast.SetComp, ast.DictComp, ast.GeneratorExp)):
            for g in n.generators:
                if any(isinstance(x, ast.Name) and x.id in pnames for x in ast.walk(g.target)):
                    return True
    return False


def ir_copy_keep_body(ir):
    return copy.deepcopy(ir)


EXTRA = [
    "zq_extra{0} = {0}",
    "print('zq_extra_marker{0}', argument_parser)",
    "for zq_i{0} in range(2):\n    print(zq_i{0})",
    "if zq_flag{0} is None:\n    zq_flag{0} = 1",
    # options registered on something OTHER than the parser itself (a mutually exclusive group, an argument group)
    "zq_group{0} = argument_parser.add_mutually_exclusive_group()\nzq_group{0}.add_argument('--zq_verbose{0}', action='store_true', help='zq be loud')",
    "zq_section{0} = argument_parser.add_argument_group('zq section')\nzq_section{0}.add_argument('--zq_depth{0}', type=int, default={0})",
]


def one_argparse(ctx, ir, i):
    from doctrans import emit, parse
    from doctrans.source_transformer import to_code

    base = {"op": OP, "kind": "argparse", "has_return": bool(ir.get("returns"))}
    # shapes with their own listed C04 defects (integer choices, untyped return) are not this property's subject
    if any(str(p.get("typ", "")).startswith("Literal[") and "'" not in str(p.get("typ")) for p in ir["params"].values()):
        return
    rt = (ir.get("returns") or {}).get("return_type") or {}
    if rt and (not rt.get("typ") or not isinstance(rt.get("default", ""), str)):
        return
    try:
        src = to_code(emit.argparse_function(ir_copy(ir), function_name="set_cli_args"))
    except Exception:
        return
    fd = ast.parse(src).body[0]
    k = ctx.rng.randint(1, 3)
    extras = []
    for j in range(k):
        tpl = EXTRA[(i + j) % len(EXTRA)]
        s = tpl.format(100 + i * 3 + j)
        if "zq_flag" in s:
            s = "zq_flag{0} = None\n".format(100 + i * 3 + j) + s
        extras += ast.parse(s).body
    has_ret = isinstance(fd.body[-1], ast.Return)
    layout = ("after_interface", "interleaved", "before_description")[(i // 3) % 3]
    if layout == "after_interface":
        fd.body = fd.body[:-1] + extras + fd.body[-1:] if has_ret else fd.body + extras
    else:
        # hand-written layouts: statements between the add_argument calls / before the description
        first = 1 if (fd.body and isinstance(fd.body[0], ast.Expr) and isinstance(getattr(fd.body[0], "value", None), ast.Constant)) else 0
        last = len(fd.body) - (1 if has_ret else 0)
        body = list(fd.body)
        for e in reversed(extras):
            at = first if layout == "before_description" else ctx.rng.randint(first, last)
            body.insert(at, e)
            last += 1
        fd.body = body
    base["extras_layout"] = layout
    ctx.feature("argparse_extras=" + layout)
    src2 = ast.unparse(ast.fix_missing_locations(fd))
    argparse_from_src(ctx, src2, base, len(ir["params"]))


def argparse_from_src(ctx, src2, base, n_params):
    from doctrans import emit, parse
    from doctrans.source_transformer import to_code

    replay = {"what": "argparse", "src": src2, "base": base, "n_params": n_params}
    fd2 = ast.parse(src2).body[0]
    def _on_the_parser(s, what):
        # the harness's own reading of "interface statement": argument_parser.add_argument(...) / argument_parser.description = ...
        if what == "add_argument":
            return (isinstance(s, ast.Expr) and isinstance(s.value, ast.Call) and isinstance(s.value.func, ast.Attribute)
                    and s.value.func.attr == "add_argument" and isinstance(s.value.func.value, ast.Name) and s.value.func.value.id == "argument_parser")
        return (isinstance(s, ast.Assign) and len(s.targets) == 1 and isinstance(s.targets[0], ast.Attribute) and s.targets[0].attr == "description"
                and isinstance(s.targets[0].value, ast.Name) and s.targets[0].value.id == "argument_parser")

    def non_interface(body):
        return [s for s in strip_doc(body) if not _on_the_parser(s, "add_argument") and not _on_the_parser(s, "description")]

    before = non_interface(fd2.body)
    ctx.case(("argparse", stmt_kinds(before), n_params), nontrivial=True, sample={"src": src2}, sample_key="argparse")
    try:
        ir2 = parse.argparse_ast(copy.deepcopy(fd2), function_name="set_cli_args")
        out = emit.argparse_function(ir2, function_name="set_cli_args", function_type="static")
        out_fd = ast.parse(to_code(out)).body[0]
    except Exception as e:
        ctx.report_exception(e, base, replay, stage="parse_or_emit")
        return
    ctx.event("emit.argparse")
    compare_bodies(ctx, base, replay, before, non_interface(out_fd.body), "argparse")


def run(ctx):
    ctx.require("bodies_compared:function", 50)
    ctx.require("bodies_compared:__call__", 20)
    ctx.require("bodies_compared:argparse", 20)
    n = ctx.n(600, 16000)
    g = IRGen(ctx.rng, knobs(argparse_domain=True, p_return=0.5))
    for i in range(n):
        spec = gen_function(ctx.rng, with_body=True, style="rest", p_no_params=0.08)
        one_function(ctx, spec)
        if i % 3 == 0:
            ir, feat = g.ir()
            one_argparse(ctx, ir, i)


def replay(payload):
    from ..runner import Ctx
    from ..gen_py import FuncSpec

    ctx = Ctx(PROPERTY, "quick", 0)
    rp = payload["replay"]
    if rp.get("what") == "argparse":
        argparse_from_src(ctx, rp["src"], rp["base"], rp.get("n_params", 0))
    else:
        one_function(ctx, FuncSpec(rp["spec"]))
    return ctx
