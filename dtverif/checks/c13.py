"""C13 -- conversions do not interfere through shared inputs.

E: icontract snapshot/ensure events on the REAL emitters/parsers (argument digest before
   vs after), and the emitted text of call k in a sequence vs the same call on a fresh copy.
O: decisive oracle = text equality of every call in a sequence sharing ONE IR object with
   its fresh-copy twin, for all sequences (with repetition) up to length 4 over the seven
   kinds; parse(tree) twice gives equal IRs and leaves ast.dump(tree) unchanged, also with
   an emit of the parsed IR in between.
"""
import ast
import itertools
import sys
from copy import deepcopy

from ..gen_ir import IRGen, ir_copy, ir_jsonable, ir_from_jsonable, knobs, shape_signature
from ..kinds import ALL_KINDS, CODE_KINDS, emit_kind, parse_kind
from ..roundtrip import case_base
from .c08 import drift_tag

PROPERTY = "C13"
LEVEL = "exploration"
SHARDS = {"quick": 6, "thorough": 16}
TIMEOUT = {"quick": 900, "thorough": 3400}
OP = "shared_input"
RULE = (
    "every conversion alone on fresh copies twice in opposite orders; classes with __call__ also without a body; returned expressions over parameters; generated IRs (with/without return entry, with/without a carried function body) x sequences with repetition of "
    "emit calls over {rest,numpydoc,google,class,function,method,argparse} sharing ONE IR object: all 7^2 pairs for "
    "every IR, plus sequences of length 3 and 4 (thorough: all 343 + 2401 enumerated over the IR pool; quick: sampled); "
    "each call's text is compared with the text of the same call on a fresh deep copy; icontract snapshot/ensure "
    "contracts on the real emitters/parsers record every argument mutation; parse-twice and parse-emit-parse on one "
    "shared tree; non-trivial = IR has a parameter or return entry; distinct = distinct (shape signature, sequence)"
)
ASSUMPTIONS = [
    "an argument mutation that no later call can observe is recorded (contract event) but only observable interference is a violation",
    "held = held on the executions observed",
]
ANCHORS = [
    ("doctrans/emit.py", "class_"),
    ("doctrans/emit.py", "function"),
    ("doctrans/emit.py", "argparse_function"),
    ("doctrans/emit.py", "docstring"),
    ("doctrans/emitter_utils.py", "RewriteName.visit_Name"),
    ("doctrans/ast_utils.py", "param2ast"),
    ("doctrans/ast_utils.py", "param2argparse_param"),
    ("doctrans/defaults_utils.py", "set_default_doc"),
    ("doctrans/parse.py", "function"),
]


def digest(ir):
    body = ((ir.get("_internal") or {}).get("body")) or []
    return repr(ir_jsonable(ir)) + "|" + "|".join(ast.dump(b) for b in body if isinstance(b, ast.AST))


def install_contracts(ctx):
    """icontract.snapshot + ensure on the four emitters (argument `intermediate_repr`) and
    on the three AST parsers (first positional argument).  Conditions record, return True."""
    import icontract

    import doctrans.emit as emit
    import doctrans.parse as parse

    undo = []

    def wrap_emitter(name):
        orig = getattr(emit, name)

        def snap(intermediate_repr):
            return digest(intermediate_repr)

        def unchanged(intermediate_repr, OLD):
            ctx.event("contract:emit." + name)
            if digest(intermediate_repr) != OLD.before:
                ctx.event("contract_fired:emit." + name)
                ctx.notes.setdefault("argument_mutations", {})
                ctx.notes["argument_mutations"]["emit." + name] = ctx.notes["argument_mutations"].get("emit." + name, 0) + 1
            return True

        wrapped = icontract.snapshot(snap, name="before")(icontract.ensure(unchanged)(orig))
        setattr(emit, name, wrapped)
        undo.append((emit, name, orig))

    for n in ("class_", "function", "argparse_function", "docstring"):
        wrap_emitter(n)

    def wrap_parser(name, argname):
        orig = getattr(parse, name)

        def snap(**kw):
            return None

        # icontract needs the real argument name
        if argname == "class_def":
            def snap(class_def):  # noqa: F811
                return ast.dump(class_def) if isinstance(class_def, ast.AST) else None

            def unchanged(class_def, OLD):
                ctx.event("contract:parse." + name)
                if isinstance(class_def, ast.AST) and ast.dump(class_def) != OLD.before:
                    ctx.event("contract_fired:parse." + name)
                return True
        else:
            def snap(function_def):  # noqa: F811
                return ast.dump(function_def) if isinstance(function_def, ast.AST) else None

            def unchanged(function_def, OLD):
                ctx.event("contract:parse." + name)
                if isinstance(function_def, ast.AST) and ast.dump(function_def) != OLD.before:
                    ctx.event("contract_fired:parse." + name)
                return True

        wrapped = icontract.snapshot(snap, name="before")(icontract.ensure(unchanged)(orig))
        setattr(parse, name, wrapped)
        undo.append((parse, name, orig))

    wrap_parser("class_", "class_def")
    wrap_parser("function", "function_def")
    wrap_parser("argparse_ast", "function_def")
    return lambda: [setattr(m, k, o) for m, k, o in undo]


OPTS = {
    "rest": dict(emit_default_doc=True, word_wrap=False),
    "numpydoc": dict(emit_default_doc=True, word_wrap=False),
    "google": dict(emit_default_doc=True, word_wrap=False),
    "class": dict(emit_default_doc=False, word_wrap=False),
    "function": dict(emit_default_doc=False, word_wrap=False, function_type="static", inline_types=True,
                     emit_as_kwonlyargs=False, indent_level=1, emit_separating_tab=True),
    "method": dict(emit_default_doc=False, word_wrap=False, function_type="self", inline_types=False,
                   emit_as_kwonlyargs=True, indent_level=2, emit_separating_tab=True, name="f_target"),
    "argparse": dict(emit_default_doc=False, word_wrap=False),
}
ALT_OPTS = {k: dict(v, emit_default_doc=not v["emit_default_doc"], word_wrap=True) for k, v in OPTS.items()}


def emit_or_exc(kind, ir, opts):
    try:
        return ("ok", emit_kind(kind, ir, opts))
    except Exception as e:  # the twin must fail the same way
        return ("exc", type(e).__name__)


def attach_body(ir, variant=0):
    """variant bit 0: the body ends in a `return` (as parse.function carries it);
    variant bit 1: the body came from a function named like the argparse emitter's default."""
    names = [n for n in ir["params"] if not n.endswith("kwargs")]
    src = "acc = [{}]\nfor zq_item in acc:\n    print(zq_item, {})\nzq_tmp = len(acc)".format(
        ", ".join(names), names[0] if names else "None")
    if variant & 1:
        src += "\nreturn zq_tmp"
    body = ast.parse("def _zq():\n" + "\n".join("    " + l for l in src.split("\n"))).body[0].body
    ir["_internal"] = {"body": body, "from_name": "set_cli_args" if variant & 2 else "f_target", "from_type": "static"}
    return ir


def run_sequences(ctx, ir0, feat, seqs, opts_table, base0, body, call=None, flip=False):
    call = body if call is None else call
    baseline = {}
    # every conversion alone, on its own fresh copy -- twice, in opposite orders: what a conversion gives "alone" must
    # not depend on which other conversions already ran in this process on equal (not shared) descriptions
    order = list(reversed(ALL_KINDS)) if flip else list(ALL_KINDS)
    for kind in order:
        o = dict(opts_table[kind])
        if kind == "class" and call:
            o["emit_call"] = True
        baseline[kind] = emit_or_exc(kind, deepcopy(ir0), o)
    for kind in reversed(order):
        o = dict(opts_table[kind])
        if kind == "class" and call:
            o["emit_call"] = True
        again = emit_or_exc(kind, deepcopy(ir0), o)
        ctx.event("fresh_copy_repeats")
        if again != baseline[kind]:
            if again[0] == "ok" and baseline[kind][0] == "ok":
                tag, where = drift_tag(baseline[kind][1], again[1])
            else:
                tag, where = "outcome:{}->{}".format(baseline[kind][0], again[0]), str((baseline[kind], again))[:200]
            ctx.report(dict(base0, field="interference_between_fresh_copies", victim=kind, tag=tag, body=body, emit_call=bool(call),
                            expected=where[:300], observed=""),
                       {"ir": ir_jsonable(ir0), "feat": feat, "seq": [], "body": body, "body_variant": base0.get("body_variant") or 0,
                        "alt": opts_table is ALT_OPTS, "call": bool(call), "flip": flip})
            return
    # ... and once more on a TWIN description (same shape, same lengths, every generated marker spelt zr instead of zq), again in
    # the opposite order: state keyed by the text itself is then filled in a different order for the twin than for the original
    def _twin(x):
        if isinstance(x, str):
            return x.replace("zq", "zr")
        if isinstance(x, dict):
            return type(x)((k, (v if k == "_internal" else _twin(v))) for k, v in x.items())
        return x

    twin = _twin(deepcopy(ir0))
    for kind in reversed(order):
        o = dict(opts_table[kind])
        if kind == "class" and call:
            o["emit_call"] = True
        got = emit_or_exc(kind, deepcopy(twin), o)
        got = (got[0], got[1].replace("zr", "zq")) if got[0] == "ok" else got
        ctx.event("twin_description_repeats")
        if got != baseline[kind]:
            if got[0] == "ok" and baseline[kind][0] == "ok":
                tag, where = drift_tag(baseline[kind][1], got[1])
            else:
                tag, where = "outcome:{}->{}".format(baseline[kind][0], got[0]), str((baseline[kind], got))[:200]
            ctx.report(dict(base0, field="interference_between_equal_shaped_descriptions", victim=kind, tag=tag, body=body, emit_call=bool(call),
                            expected=where[:300], observed=""),
                       {"ir": ir_jsonable(ir0), "feat": feat, "seq": [], "body": body, "body_variant": base0.get("body_variant") or 0,
                        "alt": opts_table is ALT_OPTS, "call": bool(call), "flip": flip})
            return
    known_pairs = set()
    for seq in seqs:
        shared = deepcopy(ir0)
        ctx.event("sequences")
        ctx.event("sequences_len{}".format(len(seq)))
        for k, kind in enumerate(seq):
            o = dict(opts_table[kind])
            if kind == "class" and call:
                o["emit_call"] = True
            got = emit_or_exc(kind, shared, o)
            ctx.event("calls")
            if got != baseline[kind]:
                prefix = seq[:k]
                culprits = sorted({"{}->{}".format(a, kind) for a in prefix if (a, kind) in known_pairs})
                if len(seq) == 2:
                    known_pairs.add((seq[0], kind))
                    culprits = ["{}->{}".format(seq[0], kind)]
                if got[0] == "ok" and baseline[kind][0] == "ok":
                    tag, where = drift_tag(baseline[kind][1], got[1])
                else:
                    tag, where = "outcome:{}->{}".format(baseline[kind][0], got[0]), str((baseline[kind], got))[:200]
                d = dict(base0, field="interference", victim=kind, mutators=sorted(set(prefix)), tag=tag,
                         seq_len=len(seq), culprit_pairs=culprits, body=body,
                         expected=where[:300], observed="")
                ctx.report(d, {"ir": ir_jsonable(ir0), "feat": feat, "seq": list(seq), "body": body,
                               "body_variant": base0.get("body_variant") or 0, "alt": opts_table is ALT_OPTS, "call": bool(call), "flip": flip})
                break


def check_parsers(ctx, ir0, feat, base0):
    """parse(tree) twice => equal IRs, tree unchanged; also with emit(parse(tree)) between."""
    for kind in CODE_KINDS:
        try:
            src = emit_kind(kind, deepcopy(ir0), OPTS[kind])
            node = ast.parse(src).body[0]
        except Exception:
            continue
        if kind == "class" and len(node.body) > 1 and feat["n_params"] % 2 == 1:
            # a class WITHOUT a docstring (hand-written config classes often have none)
            node.body = node.body[1:]
            src = ast.unparse(node)
            ctx.event("parse_twice:class_without_docstring")
        before = ast.dump(node)
        try:
            a = parse_kind_node(kind, node)
            mid = ast.dump(node)
            try:
                emit_kind(kind, a, OPTS[kind])  # may alias body nodes of `node`
                if kind in ("function", "method"):
                    emit_kind("class", a, dict(OPTS["class"], emit_call=True))
            except Exception:
                pass
            b = parse_kind_node(kind, node)
        except Exception:
            continue
        ctx.event("parse_twice:" + kind)
        if mid != before:
            ctx.report(dict(base0, kind=kind, field="tree_mutated", tag="by_parse", expected="", observed=""),
                       {"ir": ir_jsonable(ir0), "kind": kind})
        elif ast.dump(node) != before:
            ctx.report(dict(base0, kind=kind, field="tree_mutated", tag="by_emit_of_parsed_ir", expected="", observed=""),
                       {"ir": ir_jsonable(ir0), "kind": kind})
        a2 = parse_kind_node(kind, ast.parse(src).body[0])
        if digest_ir(b) != digest_ir(a2):
            ctx.report(dict(base0, kind=kind, field="reparse_differs", tag="after_emit", expected=digest_ir(a2)[:300],
                            observed=digest_ir(b)[:300]), {"ir": ir_jsonable(ir0), "kind": kind})


def sync_level(ctx, ir0, feat, base0, i):
    """`sync` hands ONE parsed truth to every conversion of the run.  A function file created from a function truth
    that carries a body must come out the same whether or not class / argparse targets are converted in the same run."""
    import os
    import shutil
    import tempfile
    from argparse import Namespace

    from doctrans.conformance import ground_truth

    ir = deepcopy(ir0)
    ir.pop("_internal", None)
    try:
        src = emit_kind("function", ir, OPTS["function"])
    except Exception:
        return
    lines = src.rstrip("\n").split("\n")
    names = [n for n in ir0["params"] if not n.endswith("kwargs")]
    body = ["    zq_loaded = [{}]".format(", ".join(names[:2])), "    print('zq_loading', zq_loaded)", "    zq_total = len(zq_loaded) * 5"]
    at = len(lines) - 1 if lines[-1].lstrip().startswith("return") else len(lines)
    lines[at:at] = body
    if at == len(lines) - len(body):
        lines.append("    return zq_total")
    truth_src = "\n".join(lines) + "\n"
    try:
        ast.parse(truth_src)
    except SyntaxError:
        return
    outs = {}
    variants = {"function_only": (), "with_class": ("class",), "with_class_and_argparse": ("class", "argparse_function")}
    root = tempfile.mkdtemp(prefix="dtverif-c13-sync-")
    try:
        for label, extra in variants.items():
            d = os.path.join(root, label)
            os.mkdir(d)
            truth_fn, new_fn = os.path.join(d, "truth_func.py"), os.path.join(d, "new_func.py")
            with open(truth_fn, "w") as f:
                f.write(truth_src)
            if i % 2:
                with open(new_fn, "w") as f:
                    f.write("ZQ_BEFORE = 1\n")  # the file exists but does not hold the function yet
            ns = Namespace(truth="function", functions=[truth_fn, new_fn], function_names=["f_target"],
                           classes=[os.path.join(d, "cls.py")] if "class" in extra else None, class_names=["ConfigClass"] if "class" in extra else None,
                           argparse_functions=[os.path.join(d, "cli.py")] if "argparse_function" in extra else None,
                           argparse_function_names=["set_cli_args"] if "argparse_function" in extra else None)
            try:
                ground_truth(ns, truth_fn)
                outs[label] = ("ok", open(new_fn).read() if os.path.exists(new_fn) else None)
            except Exception as e:
                outs[label] = ("exc", type(e).__name__)
            ctx.event("sync_runs_sharing_one_truth")
    finally:
        shutil.rmtree(root, ignore_errors=True)
    ref = outs["function_only"]
    for label in ("with_class", "with_class_and_argparse"):
        if ref[0] != "ok" or outs[label][0] != "ok":
            ctx.event("sync_variants_not_comparable")  # a conversion of the run failed (judged by C09 / C20), nothing to compare
            continue
        ctx.event("sync_variants_compared")
        if outs[label] != ref:
            if outs[label][1] and ref[1]:
                tag, where = drift_tag(ref[1], outs[label][1])
            else:
                tag, where = "outcome:{}->{}".format(ref[0], outs[label][0]), str((ref, outs[label]))[:200]
            ctx.report(dict(base0, field="interference_in_sync", victim="function", mutators=label, tag=tag, expected=where[:300], observed=""),
                       {"ir": ir_jsonable(ir0), "feat": feat, "truth_src": truth_src, "variant": label, "sync_level": i})
            break


def check_class_merge(ctx, base0, i):
    """parse.class_(tree, merge_inner_function='__init__') twice on ONE tree: equal results, the tree as it was."""
    import random

    from doctrans import parse

    from ..gen_py import gen_class_with_init

    c = gen_class_with_init(random.Random(i * 7919 + ctx.seed))
    node = ast.parse(c.src).body[0]
    before = ast.dump(node)
    try:
        a = parse.class_(node, merge_inner_function="__init__")
        mid = ast.dump(node)
        b = parse.class_(node, merge_inner_function="__init__")
    except Exception:
        return
    ctx.event("parse_twice:class_with_init_merged")
    if mid != before:
        ctx.report(dict(base0, kind="class", field="tree_mutated", tag="by_parse_with_merge", expected="", observed=""),
                   {"ir": {}, "kind": "class", "class_src": c.src, "class_merge": i})
    elif digest_ir(a) != digest_ir(b):
        ctx.report(dict(base0, kind="class", field="reparse_differs", tag="with_merge", expected=digest_ir(a)[:300], observed=digest_ir(b)[:300]),
                   {"ir": {}, "kind": "class", "class_src": c.src, "class_merge": i})


def digest_ir(ir):
    return digest(ir)


def parse_kind_node(kind, node):
    from doctrans import parse

    if kind == "class":
        return parse.class_(node)
    if kind == "argparse":
        return parse.argparse_ast(node)
    return parse.function(node)


def run(ctx):
    undo = install_contracts(ctx)
    for n in ("class_", "function", "argparse_function", "docstring"):
        ctx.require("contract:emit." + n, 10)
    ctx.require("contract:parse.function", 5)
    ctx.require("sequences", 50)
    ctx.require("sync_variants_compared", 6)
    g = IRGen(ctx.rng, knobs(p_return=0.7, argparse_domain=False, p_return_over_params=0.5, p_long_summary=0.3, p_long_doc=0.25))
    n_irs = ctx.n(96, 800)
    all3 = list(itertools.product(ALL_KINDS, repeat=3))
    all4 = list(itertools.product(ALL_KINDS, repeat=4))
    pairs = list(itertools.product(ALL_KINDS, repeat=2))
    exhaustive = not ctx.quick()
    try:
        for i in range(n_irs):
            ir0, feat = g.ir()
            body = bool(i % 2) and feat["n_params"] > 0
            variant = (i // 2) % 4
            if body:
                attach_body(ir0, variant)
            base0 = case_base(OP, "any", ir0, feat, {})
            base0["has_body"] = body
            base0["body_variant"] = variant if body else None
            if body:
                ctx.feature("body_ends_in_return" if variant & 1 else "body_without_return")
                ctx.feature("body_from_set_cli_args" if variant & 2 else "body_from_f_target")
            if exhaustive:
                # every shard walks a slice of the complete 343 + 2401 enumeration; over the
                # IR pool every sequence is executed many times
                seqs3 = all3
                seqs4 = all4[i % 4::4]
            else:
                seqs3 = ctx.rng.sample(all3, 12)
                seqs4 = ctx.rng.sample(all4, 12)
            seqs = pairs + list(seqs3) + list(seqs4)
            ctx.case(shape_signature(feat, (body, i)), nontrivial=feat["n_params"] > 0 or feat["has_return"],
                     sample={"ir": ir_jsonable(ir0), "with_body": body, "sequences": len(seqs),
                             "example_sequence": list(seqs[-1])}, sample_key=body)
            ctx.feature("with_body" if body else "without_body")
            ctx.feature("with_return" if feat["has_return"] else "without_return")
            # a class with a __call__ method: always when a body is carried, and for every other description without one
            call = body or (i // 2) % 2 == 0
            base0["class_emitted_with_call"] = call
            ctx.feature("class_with_call" if call else "class_without_call")
            run_sequences(ctx, ir0, feat, seqs, OPTS, base0, body, call=call, flip=bool((i // 4) % 2))
            if i % 3 == 0:
                run_sequences(ctx, ir0, feat, pairs, ALT_OPTS, dict(base0, alt_opts=True), body, call=call, flip=not bool((i // 4) % 2))
            check_parsers(ctx, ir0, feat, base0)
            check_class_merge(ctx, base0, i * ctx.shard[1] + ctx.shard[0])
            if feat["n_params"] > 0 and i % 2 == 0:
                sync_level(ctx, ir0, feat, base0, i // 2)
    finally:
        undo()
    ctx.note("exhaustive_sequences_per_ir", exhaustive)


def replay(payload):
    from ..runner import Ctx

    rp = payload["replay"]
    ctx = Ctx(PROPERTY, "quick", 0)
    ctx.case(("replay",))
    ir0 = ir_from_jsonable(rp["ir"])
    if rp.get("body"):
        attach_body(ir0, rp.get("body_variant", 0))
    if "class_merge" in rp:
        check_class_merge(ctx, {"op": OP}, rp["class_merge"])
    elif "sync_level" in rp:
        sync_level(ctx, ir0, rp["feat"], {"op": OP}, rp["sync_level"])
    elif "seq" in rp:
        seq = tuple(rp["seq"])
        seqs = ([(a, seq[-1]) for a in set(seq[:-1])] + [seq]) if seq else []
        run_sequences(ctx, ir0, rp["feat"], seqs, ALT_OPTS if rp.get("alt") else OPTS, {"op": OP}, bool(rp.get("body")),
                      call=rp.get("call"), flip=bool(rp.get("flip")))
    return ctx
