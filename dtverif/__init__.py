"""dtverif -- runtime-monitoring harness for SamuelMarks/doctrans (properties C01..C20).

Every check is ``cd /verif && /venv/bin/python -m dtverif.run <ID> --tier quick|thorough``.
"""
