"""C18 -- word-wrapping and line-length configuration are semantically transparent.

E: worker processes started with DOCTRANS_LINE_LENGTH in {unset, 40, 60, 79, 80, 100, 119,
   120, 200} (thorough: every value 40..200 step 5); in each, every emitter with word_wrap
   on and off; the worker parses both artefacts and compares them.
O: no emitter raises because of the configuration; parse(wrapped) equals parse(unwrapped)
   modulo whitespace runs in prose; no tag lost, merged or re-attributed.
"""
import json
import subprocess
import sys
from concurrent.futures import ThreadPoolExecutor

from .. import env

PROPERTY = "C18"
LEVEL = "exploration"
SHARDS = {"quick": 1, "thorough": 1}
TIMEOUT = {"quick": 900, "thorough": 3400}
RULE = (
    "one worker process per DOCTRANS_LINE_LENGTH value (module-level width is read once at import) x generated IRs whose "
    "summaries/prose/type strings are shorter than, about equal to and much longer than the width x seven kinds x "
    "emitter options; prose may already state its default, long prose carries free-standing hyphens, hyphenated words and a URL longer than the narrow widths; " 
    "emitter options; one evaluation = emit wrapped + emit unwrapped + parse both + field-wise comparison; "
    "non-trivial = wrapped emission succeeded and both parsed; distinct = distinct (width, kind, case index)"
)
ASSUMPTIONS = [
    "expected value = what the UNWRAPPED artefact parses to, so round-trip defects that do not depend on wrapping cancel out",
    "emitted line widths are reported (max line, lines over width) but not a verdict: textwrap cannot break long tokens",
    "held = held on the executions observed",
]
ANCHORS = []


def run_worker(width, seed, n):
    extra = {"DOCTRANS_LINE_LENGTH": str(width)} if width is not None else {}
    e = env.child_env(extra)
    if width is None:
        e.pop("DOCTRANS_LINE_LENGTH", None)
    p = subprocess.run([sys.executable, "-m", "dtverif.workers.wrap_worker", str(seed), str(n)], cwd=env.ROOT, env=e,
                       capture_output=True, text=True, timeout=3000)
    if p.returncode != 0:
        raise RuntimeError("wrap worker width={} failed: {}".format(width, p.stderr[-400:]))
    return [json.loads(l) for l in p.stdout.split("\n") if l.strip()]


def run(ctx):
    ctx.require("worker_processes", 5)
    ctx.require("wrapped_vs_unwrapped_compared", 200)
    if ctx.quick():
        # a fixed spread plus seed-dependent widths (a defect may live in a band a few columns wide)
        widths = [None, 40, 60, 79, 80, 100, 119, 120, 200] + sorted(ctx.rng.sample(range(41, 119), 7))
        n = 60
    else:
        widths = [None] + list(range(40, 131)) + list(range(135, 205, 5))
        n = 220
    pool = ThreadPoolExecutor(max_workers=16)
    futs = {w: pool.submit(run_worker, w, ctx.seed, n) for w in widths}
    for w, f in futs.items():
        try:
            recs = f.result()
        except Exception as e:
            ctx.inconclusive.append(str(e)[:300])
            continue
        ctx.event("worker_processes")
        for rec in recs:
            if "summary" in rec:
                s = rec["summary"]
                ctx.event("wrapped_emissions_ok", s["emit_ok"])
                ctx.event("wrapped_vs_unwrapped_compared", s["compared"])
                ctx.notes.setdefault("widths", {})[str(w)] = s
                continue
            ctx.case(("w", w, rec["kind"], rec["i"]), nontrivial=rec.get("status") != "unwrapped_failed" and rec["feat_n"] > 0,
                     sample={"line_length": w, "kind": rec["kind"], "opts": rec["opts"], "discrepancies": len(rec["discs"])},
                     sample_key=(w, rec["kind"]) if w in (None, 40) else None)
            ctx.feature("width={}".format(w))
            for d in rec["discs"]:
                ctx.report(d, {"line_length": w, "seed": ctx.seed, "n": n, "i": rec["i"], "kind": rec["kind"],
                               "opts": rec["opts"], "text": rec.get("text")})
    pool.shutdown(wait=False)


def replay(payload):
    from ..runner import Ctx

    rp = payload["replay"]
    ctx = Ctx(PROPERTY, "quick", 0)
    ctx.case(("replay",))
    for rec in run_worker(rp["line_length"], rp["seed"], rp["n"]):
        if rec.get("i") == rp["i"] and rec.get("kind") == rp["kind"]:
            for d in rec["discs"]:
                ctx.report(d, rp)
    return ctx
