"""C05 -- any-to-any convertibility preserves the interface.

E: a chain ir0 -> emit k1 -> parse -> emit k2 -> parse [-> emit k3 -> parse] = irN over the
   kinds {rest, numpydoc, google, class, function, method, argparse}.
O: refinement, not equality.  Every hop is judged by the field-wise oracle of its kind (the
   IR it starts from is the expected value); the end-to-end comparison ir0 vs irN must not
   show anything that no hop explains: never a new parameter, never an invented default
   beyond a table normalisation of a kind on the chain, never a tag of another parameter.
"""
import itertools

from ..canon import ABSENT, Table, canon_default, canon_typ, compare, tags_in
from ..gen_ir import IRGen, case_flags, feat_from_ir, ir_copy, ir_jsonable, ir_from_jsonable, knobs, shape_signature
from ..kinds import ALL_KINDS, DOC_KINDS, emit_kind, parse_kind, table_for
from ..roundtrip import case_base

PROPERTY = "C05"
LEVEL = "exploration"
SHARDS = {"quick": 8, "thorough": 16}
TIMEOUT = {"quick": 900, "thorough": 3400}
OP = "chain"
RULE = (
    "all 42 ordered pairs and all 210 length-3 chains of distinct kinds among {rest,numpydoc,google,class,function,"
    "method,argparse} (enumerated completely: exhaustive over chains), each executed on generated IRs drawn from the "
    "intersection domain of its kinds (argparse-expressible IRs when argparse is on the chain); one evaluation = one "
    "chain; every hop is compared field-wise (expected = the IR the hop started from), then ir0 vs irN end-to-end; "
    "non-trivial = IR has a parameter or return entry; distinct = distinct (chain, shape signature)"
)
ASSUMPTIONS = [
    "chains over kinds are enumerated exhaustively; IRs per chain are sampled",
    "the end-to-end comparison accepts, per field, the original value or any normalisation permitted by the table of a kind on the chain",
    "held = held on the executions observed",
]
ANCHORS = [
    ("doctrans/emit.py", "docstring"),
    ("doctrans/emit.py", "class_"),
    ("doctrans/emit.py", "function"),
    ("doctrans/emit.py", "argparse_function"),
    ("doctrans/parse.py", "class_"),
    ("doctrans/parse.py", "function"),
    ("doctrans/parse.py", "argparse_ast"),
    ("doctrans/parse.py", "docstring"),
]

OPTS = {
    "rest": dict(emit_default_doc=True, word_wrap=False, parse_emit_default_doc=False),
    "numpydoc": dict(emit_default_doc=True, word_wrap=False, parse_emit_default_doc=False),
    "google": dict(emit_default_doc=True, word_wrap=False, parse_emit_default_doc=False),
    "class": dict(emit_default_doc=False, word_wrap=False),
    "function": dict(emit_default_doc=False, word_wrap=False, function_type="static", inline_types=True,
                     emit_as_kwonlyargs=False, indent_level=1, emit_separating_tab=True),
    "method": dict(emit_default_doc=False, word_wrap=False, function_type="self", inline_types=True,
                   emit_as_kwonlyargs=True, indent_level=2, emit_separating_tab=True),
    "argparse": dict(emit_default_doc=False, word_wrap=False),
}
HOP_OP = {"rest": "roundtrip_docstring", "numpydoc": "roundtrip_docstring", "google": "roundtrip_docstring",
          "class": "roundtrip_class", "function": "roundtrip_function", "method": "roundtrip_function",
          "argparse": "roundtrip_argparse"}


class ChainTable(Table):
    """Union of what the kinds on the chain permit."""

    def __init__(self, kinds, opts=None):
        self.tables = [table_for(k, (opts or OPTS)[k]) for k in kinds]
        self.kinds = kinds
        self.compare_summary = True

    def accept_default(self, name, p, pf):
        acc = []
        for t in self.tables:
            acc += t.accept_default(name, p, pf)
        return acc

    def accept_typ(self, name, p, pf):
        acc = []
        for t in self.tables:
            acc += t.accept_typ(name, p, pf)
        # composition: function/class give an undefaulted parameter `None`, argparse then
        # reads "not required" as Optional[...]
        t0 = p.get("typ")
        if "argparse" in self.kinds and t0 and not t0.startswith("Optional[") and canon_default(p.get("default", ABSENT))[0] in ("absent", "none"):
            acc.append(canon_typ("Optional[{}]".format(t0)))
        return acc

    def accept_return_default(self, p, pf):
        acc = []
        for t in self.tables:
            acc += t.accept_return_default(p, pf)
        return acc

    def accept_return_typ(self, p, pf):
        acc = []
        for t in self.tables:
            acc += t.accept_return_typ(p, pf)
        return acc

    final_has_return = True

    def return_expected(self, ir, feat):
        r = (ir.get("returns") or {}).get("return_type")
        if r and "argparse" in self.kinds and "default" not in r and not self.final_has_return:
            return None  # argparse cannot carry a return entry without a default (it may, if an
            # earlier kind on the chain gave it one by its own documented normalisation)
        return r or None


def one_chain(ctx, kinds, ir0, feat0, keep_default_sentence=False, carry_internal=False):
    """keep_default_sentence: the docstring parsers run with their own default setting
    (emit_default_doc=True), so the IR prose they return still carries 'Defaults to X'."""
    chain_name = "->".join(kinds)
    replay = {"ir": ir_jsonable(ir0), "feat": feat0, "kinds": list(kinds), "keep_default_sentence": keep_default_sentence,
              "carry_internal": carry_internal}
    OPTS = {k: (dict(v, parse_emit_default_doc=True) if keep_default_sentence and k in DOC_KINDS else v) for k, v in globals()["OPTS"].items()}
    cur, curfeat = ir_copy(ir0), feat0
    explained = set()
    cascade = False
    texts = []
    lossy_ids = []  # finding ids of earlier hops (UNLISTED:* when a hop violated)
    for hop, kind in enumerate(kinds):
        base = case_base(HOP_OP[kind], kind, cur, curfeat, OPTS[kind])
        base.update(chain=chain_name, hop=hop, chain_len=len(kinds), keep_default_sentence=keep_default_sentence, carry_internal=carry_internal)
        base["after_lossy_hop"] = bool(lossy_ids)
        base["earlier_hop_findings"] = sorted(set(lossy_ids))
        try:
            text = emit_kind(kind, ir_copy(cur), OPTS[kind])
        except Exception as e:
            ctx.report_exception(e, base, dict(replay, texts=texts), stage="emit")
            ctx.event("chains_aborted")
            return
        texts.append(text)
        try:
            nxt = parse_kind(kind, text, OPTS[kind])
        except Exception as e:
            ctx.report_exception(e, base, dict(replay, texts=texts), stage="parse")
            ctx.event("chains_aborted")
            return
        ctx.event("hops")
        for d in compare(cur, nxt, curfeat, table_for(kind, OPTS[kind]), base):
            fid = ctx.report(d, dict(replay, texts=texts))
            lossy_ids.append(fid or "UNLISTED:{}:{}".format(d.get("field"), d.get("tag")))
            explained.add((d.get("param"), d["field"]))
            if d["field"] in ("param", "order", "summary", "return", "style") or str(d.get("tag", "")).startswith("foreign"):
                cascade = True
        if not carry_internal:
            nxt.pop("_internal", None)
        cur, curfeat = nxt, feat_from_ir(nxt)
    ctx.event("chains_completed")
    ctx.event("chains_len{}".format(len(kinds)))
    # end-to-end
    base = case_base(OP, "chain", ir0, feat0, {})
    base.update(chain=chain_name, chain_len=len(kinds), first=kinds[0], last=kinds[-1], keep_default_sentence=keep_default_sentence)
    ct = ChainTable(kinds, OPTS)
    ct.final_has_return = bool((cur.get("returns") or {}).get("return_type"))
    for d in compare(ir0, cur, feat0, ct, base):
        pname = d.get("param") if d["field"] != "return" else "return_type"
        if cascade or any(e[0] == pname for e in explained):
            ctx.event("end_to_end_inherited")
            continue
        d["composition_only"] = True
        ctx.report(d, dict(replay, texts=texts))
    ctx.event("end_to_end_compared")


def all_chains():
    pairs = list(itertools.permutations(ALL_KINDS, 2))
    triples = list(itertools.permutations(ALL_KINDS, 3))
    return pairs, triples


def run(ctx):
    ctx.require("chains_completed", 100)
    ctx.require("end_to_end_compared", 100)
    pairs, triples = all_chains()
    chains = pairs + triples  # 42 + 210
    per_chain = ctx.n(8, 400)
    g = IRGen(ctx.rng, knobs())
    ga = IRGen(ctx.rng, knobs(argparse_domain=True))
    # the sub-domain on which every single kind is (mostly) faithful: typed, documented, plain defaults --
    # there a chain has no lossy hop to hide behind, so composition faults stand alone
    tame = dict(p_untyped=0.0, p_no_doc=0.0, p_none_default=0.0, p_hostile_doc=0.0, p_code_default=0.0, p_return_typ=1.0,
                p_return_doc=1.0, p_zero_params=0.0)
    gt = IRGen(ctx.rng, knobs(**tame))
    gta = IRGen(ctx.rng, knobs(argparse_domain=True, **tame))
    seen_chains = set()
    for local_rep in range(per_chain):
        rep = local_rep * ctx.shard[1] + ctx.shard[0]  # global repetition index (shards differ)
        for kinds in chains:
            arg = "argparse" in kinds
            faithful = rep % 4 in (2, 3)
            ir, feat = ((gta if arg else gt) if faithful else (ga if arg else g)).ir()
            ctx.feature("ir_from_faithful_subdomain" if faithful else "ir_from_full_domain")
            ctx.case(shape_signature(feat, kinds), nontrivial=feat["n_params"] > 0 or feat["has_return"],
                     sample={"chain": list(kinds), "ir": ir_jsonable(ir)}, sample_key=len(kinds))
            ctx.feature("first=" + kinds[0])
            ctx.feature("len={}".format(len(kinds)))
            seen_chains.add(kinds)
            keep = rep % 2 == 1 and any(k in DOC_KINDS for k in kinds)
            ctx.feature("docstring_parser_keeps_default_sentence" if keep else "default_sentence_stripped")
            # the description is handed from hop to hop exactly as the parser returned it (with whatever
            # it carries besides the interface) on two of three repetitions, stripped to the interface on the third
            carry = rep % 3 != 2
            ctx.feature("description_handed_on_as_parsed" if carry else "description_stripped_to_interface")
            one_chain(ctx, kinds, ir, feat, keep, carry)
    ctx.note("distinct_chains_executed", len(seen_chains))
    ctx.note("exhaustive", len(seen_chains) == 252)


def replay(payload):
    from ..runner import Ctx

    rp = payload["replay"]
    ctx = Ctx(PROPERTY, "quick", 0)
    ctx.case(("replay",))
    one_chain(ctx, tuple(rp["kinds"]), ir_from_jsonable(rp["ir"]), rp["feat"], rp.get("keep_default_sentence", False), rp.get("carry_internal", False))
    return ctx
