#!/venv/bin/python
"""Regenerate MANIFEST.json from tools/checks_table.json (claimed checks) + properties.jsonl."""
import json
root = '/verif'
table = json.load(open(root + '/tools/checks_table.json'))
props = [json.loads(l) for l in open(root + '/properties.jsonl')]
m = {
 "version": 1,
 "setup_cmd": "/venv/bin/pip install -q --no-index --find-links /opt/veriftools/wheels --target /verif/.deps icontract deal jsonschema",
 "hooks": {
  "guard": "DOCTRANS_VERIF",
  "enable": "no repository hooks are needed: every monitor is attached from the harness (attribute taps, icontract contracts, sys.monitoring anchor coverage, sys.addaudithook, rebinding `open` in doctrans modules); checks import doctrans from /repo's working tree in a fresh interpreter",
  "baseline_off_cmd": "cd /repo && /venv/bin/python -m pytest -ra -q -p no:cacheprovider --timeout=900 --continue-on-collection-errors",
  "source_commits": [],
  "add_only": True,
 },
 "engines": [{"name": "dtverif", "path": "dtverif/", "serves_properties": sorted(table["checks"].keys()),
              "kind_free_text": "runtime monitoring harness: seeded hostile workload generators, boundary taps, contracts, anchor-coverage via sys.monitoring, known-findings classifier"}],
 "checks": [],
 "not_applicable": [],
 "notes": table.get("notes", ""),
}
for p in props:
    pid = p["id"]
    c = table["checks"].get(pid)
    if c is None:
        m["not_applicable"].append({"property_id": pid, "reason": table["pending_reason"]})
        continue
    m["checks"].append({
        "property_id": pid,
        "quick_cmd": "/venv/bin/python -m dtverif.run {} --tier quick".format(pid),
        "thorough_cmd": "/venv/bin/python -m dtverif.run {} --tier thorough".format(pid),
        "evidence_file": "/verif/evidence/{}.json".format(pid),
        "replay_cmd_template": "/venv/bin/python -m dtverif.replay {path}",
        "engine": "dtverif",
        "level_claimed": {"category": c.get("level", "exploration"), "text": c["text"], "design_ref": c.get("design_ref", "DESIGN.md section 3 / " + pid)},
        "level_note": c["note"],
        "technique": c["technique"],
    })
json.dump(m, open(root + '/MANIFEST.json', 'w'), indent=1)
print("claimed", len(m["checks"]), "pending", len(m["not_applicable"]))
