#!/venv/bin/python
"""Regenerate the table of DESIGN.md section 10 (between the markers) from seeded/*/meta.json
and seeded/MATRIX.json."""
import glob, json, os, re
mx = json.load(open('/verif/seeded/MATRIX.json')) if os.path.exists('/verif/seeded/MATRIX.json') else {}
rows = ["| seeded change | aimed at | what it needs to manifest | checks that report it (quick tier, seed 0) |", "|---|---|---|---|"]
for d in sorted(glob.glob('/verif/seeded/S*')):
    m = json.load(open(os.path.join(d, 'meta.json')))
    r = mx.get(m['id'], {})
    caught = r.get('caught_by') or m.get('caught_by', [])
    own = m['breaks_property']
    mark = lambda c: ("**%s**" % c) if c == own else c
    note = "" if r.get('applies', True) else " (patch no longer applies to HEAD)"
    if own not in caught:
        note += " — NOT reported by %s at quick/seed 0" % own
    rows.append("| %s | %s | %s | %s%s |" % (m['id'], own, m['needs_to_manifest'].replace('|', '/'), ", ".join(mark(c) for c in caught), note))
table = "\n".join(rows)
p = '/verif/DESIGN.md'
s = open(p).read()
a, b = "<!-- SEEDED-TABLE-BEGIN -->", "<!-- SEEDED-TABLE-END -->"
assert a in s and b in s
s = s[: s.index(a) + len(a)] + "\n" + table + "\n" + s[s.index(b):]
open(p, 'w').write(s)
print(len(rows) - 2, "rows")
