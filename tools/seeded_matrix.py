#!/venv/bin/python
"""For every kept seeded change (seeded/<id>/patch.diff): apply it to a scratch worktree of
/repo's HEAD (never to /repo itself), run all 20 checks (quick tier) against that worktree
with the evidence redirected, and record which checks report a violation.
Output: seeded/MATRIX.json  {seed-id: {"applies": bool, "caught_by": [...], "silent": [...], "inconclusive": [...]}}
usage: seeded_matrix.py [tier] [seed-id-prefix ...]"""
import json, os, subprocess, sys, tempfile, shutil, glob
from concurrent.futures import ThreadPoolExecutor
tier = sys.argv[1] if len(sys.argv) > 1 else 'quick'
only = sys.argv[2:]
props = ["C%02d" % i for i in range(1, 21)]
out_path = '/verif/seeded/MATRIX.json'
acc = json.load(open(out_path)) if os.path.exists(out_path) else {}

def one(d):
    sid = os.path.basename(d)
    wt = tempfile.mkdtemp(prefix='mx_'); os.rmdir(wt)
    subprocess.run(['git', '-C', '/repo', 'worktree', 'add', '-q', '--detach', wt, 'HEAD'], check=True)
    res = {"applies": True, "caught_by": [], "silent": [], "inconclusive": [], "tier": tier}
    try:
        r = subprocess.run(['git', 'apply', '--whitespace=nowarn', os.path.join(d, 'patch.diff')], cwd=wt)
        if r.returncode != 0:
            res["applies"] = False
            return sid, res
        for p in props:
            ev = tempfile.mkdtemp(prefix='mxev_')
            e = dict(os.environ, DTVERIF_REPO=wt, DTVERIF_EVIDENCE_DIR=ev)
            r = subprocess.run(['/venv/bin/python', '-m', 'dtverif.run', p, '--tier', tier], cwd='/verif', env=e, capture_output=True, text=True)
            (res["caught_by"] if r.returncode == 1 else res["inconclusive"] if r.returncode != 0 else res["silent"]).append(p)
            shutil.rmtree(ev, ignore_errors=True)
    finally:
        subprocess.run(['git', '-C', '/repo', 'worktree', 'remove', '--force', wt])
    return sid, res

dirs = sorted(d for d in glob.glob('/verif/seeded/S*') if not only or any(os.path.basename(d).startswith(o) for o in only))
with ThreadPoolExecutor(max_workers=3) as ex:
    for sid, res in ex.map(one, dirs):
        acc[sid] = res
        print(sid, "applies" if res["applies"] else "DOES NOT APPLY", "caught_by=", res["caught_by"], "inconclusive=", res["inconclusive"], flush=True)
        json.dump(acc, open(out_path, 'w'), indent=1, sort_keys=True)
subprocess.run(['git', '-C', '/repo', 'worktree', 'prune'])
